package main

import (
	"go/token"
	"go/types"
	"sort"
	"strings"

	"golang.org/x/tools/go/ssa"
)

func init() {
	register("C03", PropMeta{
		Title: "Group/link namespace after reopen equals the tree that was built",
		Explanation: "Structural rules on the single insertion point of the name space (linkToParent): the insertion is dominated by a scan of the existing entries that compares their names with the new name and fails on equality, and by the parent-existence test; " +
			"only linkToParent (and the root constructors) reach SymbolTableNode.AddEntry / LocalHeap.AddString; capacity errors of those calls are propagated (error-flow); CreateHardLink links exactly the address it resolved; " +
			"every lookup that selects an object or attribute by a caller-supplied name compares with == and never with a prefix/suffix/fold matcher.",
		DoesNotDecide: "capacity arithmetic and heap fill levels; that the reader lists what was written (see C06/C17 for dropped members)",
		Rules: map[string]string{
			"C03.1": "duplicate rejection: AddEntry in linkToParent is dominated by a loop over the parent's entries comparing GetString(entry) == name with an error exit, and nothing is modified before it",
			"C03.2": "single choke point: only linkToParent and the root/group constructors call SymbolTableNode.AddEntry and LocalHeap.AddString",
			"C03.3": "a missing parent is rejected: the non-root path of linkToParent looks the parent up in fw.groups and fails when absent",
			"C03.4": "capacity errors propagate: the error results of AddEntry / AddString / AddKey are propagated at every call site",
			"C03.5": "CreateHardLink passes to linkToParent the address returned by resolveObjectAddress(targetPath)",
			"C03.6": "name lookups are exact: caller-supplied names/paths select by ==, never by HasPrefix/HasSuffix/Contains/EqualFold/Index against stored names",
		},
	}, ruleC03)
	register("C04", PropMeta{
		Title: "Operations on one object never change another object",
		Explanation: "Ownership rules on file space: (C04.1) an object header that is rewritten at its existing address after messages were added or replaced needs a dominating test that the new size fits the space the object owns; " +
			"(C04.2) every structure written while a file or object is created goes to an address derived from Allocate; (C04.3) only Allocator methods move the allocation cursor and only package writer calls os.File.WriteAt; " +
			"(C04.4) chunk data is written to freshly allocated addresses only (the one in-place write is the patch of the chunk-index address).",
		DoesNotDecide: "that sizes are computed correctly; disjointness of a whole file (needs a byte-level walker)",
		Rules: map[string]string{
			"C04.1": "no in-place header growth without a room test",
			"C04.2": "structures written during creation go to allocated addresses",
			"C04.3": "the allocator is the only source of fresh space; raw os.File writes only inside package writer",
			"C04.4": "writeChunkedData writes chunk bytes and the chunk index to fresh addresses; its only in-place write is at layoutBTreeOffset",
			"C04.5": "a handle or link target is bound to exactly the requested object: OpenDataset and resolveObjectAddress select by == on the full name",
		},
	}, ruleC04)
	except("C04", "C04.1", "hdf5.DatasetWriter.Resize#in-place-header-growth#n=1", "the replaced message is the dataspace re-encoded for the same rank and the same presence of maximum dimensions; its length cannot change (C13.5 checks that the encoder's length is independent of the extents), so the header does not grow")
	register("C10", PropMeta{
		Title: "Reopening a file for modification preserves everything not modified",
		Explanation: "(C10.1) the allocator of a writer opened on an existing file is seeded at or beyond the file size (proved by the linear prover from the constructor's code); " +
			"(C10.2) the in-place rewrites of the dense structures target exactly the addresses recorded by LoadFromFile; (C10.3) a session without modifications writes nothing: no file-write primitive is reachable from OpenForWrite, and Close writes only behind conditions tied to allocations or buffered heap objects.",
		DoesNotDecide: "content equality across sessions; stale cached headers when two handles address one object",
		Rules: map[string]string{
			"C10.1": "NewAllocator(arg) in every constructor that opens an existing file has arg >= Stat().Size()",
			"C10.2": "WritableBTreeV2.WriteAt / WritableFractalHeap.WriteAt write at addresses loaded by LoadFromFile (fields written only there and by WriteToFile)",
			"C10.3": "a no-op session writes nothing",
			"C10.4": "the heap's insert cursor survives a load/store cycle: restored from the header's iterator offset only, advanced by inserts only",
		},
	}, ruleC10)
}

// ---------- C03 ----------

var partialMatchers = map[string]bool{
	"strings.HasPrefix": true, "strings.HasSuffix": true, "strings.Contains": true, "strings.EqualFold": true, "strings.Index": true,
	"strings.ContainsAny": true, "strings.LastIndex": true, "bytes.HasPrefix": true, "bytes.HasSuffix": true, "bytes.Contains": true, "bytes.Index": true,
	"strings.TrimPrefix": false, // normalisation is judged by what is compared afterwards
}

// derivedFromValue: v is computed from root by conversions, slicing, string<->bytes, or calls that take it as argument.
func derivedFromValue(v, root ssa.Value, d int) bool {
	if v == root {
		return true
	}
	if d > 8 {
		return false
	}
	switch x := v.(type) {
	case *ssa.Convert:
		return derivedFromValue(x.X, root, d+1)
	case *ssa.ChangeType:
		return derivedFromValue(x.X, root, d+1)
	case *ssa.Slice:
		return derivedFromValue(x.X, root, d+1)
	case *ssa.Extract:
		return derivedFromValue(x.Tuple, root, d+1)
	case *ssa.Call:
		for _, a := range x.Call.Args {
			if derivedFromValue(a, root, d+1) {
				return true
			}
		}
	case *ssa.Phi:
		for _, e := range x.Edges {
			if derivedFromValue(e, root, d+1) {
				return true
			}
		}
	case *ssa.BinOp:
		if x.Op == token.ADD {
			return derivedFromValue(x.X, root, d+1) || derivedFromValue(x.Y, root, d+1)
		}
	case *ssa.UnOp:
		if fv, ok := x.X.(*ssa.FreeVar); ok {
			return ssa.Value(fv) == root
		}
	}
	return false
}

// keyValuesOf: the string parameters of fn plus, for closures, the free variables bound to the parent's string parameters.
func keyValuesOf(fn *ssa.Function) []ssa.Value {
	var out []ssa.Value
	for _, p := range fn.Params {
		if b, ok := p.Type().Underlying().(*types.Basic); ok && b.Kind() == types.String {
			out = append(out, p)
		}
	}
	return out
}

func (c *Ctx) checkExactMatch(r *Result, rule string, fn *ssa.Function) {
	c.checkExactMatchOpt(r, rule, fn, true)
}

// checkExactMatchOpt: with needCompare unset only the negative part is applied (the function stores names, it is not
// required to compare them).
func (c *Ctx) checkExactMatchOpt(r *Result, rule string, fn *ssa.Function, needCompare bool) {
	if fn == nil {
		return
	}
	// the function and its closures
	var fns []*ssa.Function
	var walk func(f *ssa.Function)
	walk = func(f *ssa.Function) {
		fns = append(fns, f)
		for _, a := range f.AnonFuncs {
			walk(a)
		}
	}
	walk(fn)
	keys := keyValuesOf(fn)
	// helpers the lookup hands the requested name to (the search loop may have been extracted): judged like the
	// function itself, with the parameters that receive the name as keys
	helperKeys := map[*ssa.Function][]ssa.Value{}
	for _, sc := range scopesOf(fn, keys...) {
		if sc.call == nil {
			continue
		}
		for p, a := range sc.bind {
			for _, k := range keys {
				if derivedFromValue(a, k, 0) {
					helperKeys[sc.fn] = append(helperKeys[sc.fn], p)
				}
			}
		}
		if len(helperKeys[sc.fn]) > 0 {
			walk(sc.fn)
		}
	}
	for _, f := range fns {
		var roots []ssa.Value
		roots = append(roots, keys...)
		for g := f; g != nil; g = g.Parent() {
			roots = append(roots, helperKeys[g]...)
		}
		// free variables that capture the key parameters
		for _, fv := range f.FreeVars {
			roots = append(roots, fv)
		}
		isKey := func(v ssa.Value) bool {
			for _, k := range roots {
				if derivedFromValue(v, k, 0) {
					return true
				}
			}
			return false
		}
		instrs(f, func(in ssa.Instruction) {
			call, ok := in.(*ssa.Call)
			if !ok {
				return
			}
			callee := call.Call.StaticCallee()
			if callee == nil {
				return
			}
			name := callee.String()
			if on, listed := partialMatchers[name]; !listed || !on {
				return
			}
			if len(call.Call.Args) < 2 {
				return
			}
			a0, a1 := call.Call.Args[0], call.Call.Args[1]
			_, c0 := a0.(*ssa.Const)
			_, c1 := a1.(*ssa.Const)
			if c0 || c1 {
				return // validation of the key's syntax against a literal ("/" prefix etc.)
			}
			if isKey(a0) || isKey(a1) {
				r.Viol(rule, c.Name(fn)+"#"+name+"#partial-name-match", c.InstrPos(call), "a caller-supplied name is matched against stored names with "+name+": a name that merely contains / extends the other is selected")
			}
		})
	}
	// positive part: the key takes part in an == / != comparison of strings (possibly in a closure)
	found := false
	for _, f := range fns {
		instrs(f, func(in ssa.Instruction) {
			bo, ok := in.(*ssa.BinOp)
			if !ok || (bo.Op != token.EQL && bo.Op != token.NEQ) {
				return
			}
			if b, ok := bo.X.Type().Underlying().(*types.Basic); !ok || b.Info()&types.IsString == 0 {
				return
			}
			if _, isC := bo.X.(*ssa.Const); isC {
				return
			}
			if _, isC := bo.Y.(*ssa.Const); isC {
				return
			}
			found = true
		})
	}
	if !needCompare {
		r.Hold(rule, c.Name(fn)+"#no-partial-name-match", c.Pos(fn.Pos()), "the name is not matched against stored names by a substring / prefix search")
		return
	}
	r.Check(found, rule, c.Name(fn)+"#selects-by-equality", c.Pos(fn.Pos()), "the lookup compares the requested name with stored names using ==")
}

func ruleC03(c *Ctx, r *Result) {
	ltp := c.Fn(r, "hdf5.FileWriter.linkToParent")
	if ltp == nil {
		return
	}
	// C03.1
	var addEntry, addString ssa.CallInstruction
	for _, site := range callsIn(ltp) {
		switch c.calleeName(site) {
		case "structures.SymbolTableNode.AddEntry":
			addEntry = site
		case "structures.LocalHeap.AddString":
			addString = site
		}
	}
	if addEntry == nil || addString == nil {
		r.Viol("C03.1", c.Name(ltp)+"#insertion-missing", c.Pos(ltp.Pos()), "linkToParent no longer calls AddEntry/AddString")
	} else {
		// a comparison GetString(...) == childName whose equal-edge returns an error, inside a loop, before both insertions
		var cmp *ssa.If
		for _, b := range ltp.Blocks {
			ifi, ok := b.Instrs[len(b.Instrs)-1].(*ssa.If)
			if !ok {
				continue
			}
			bo, ok := ifi.Cond.(*ssa.BinOp)
			if !ok || (bo.Op != token.EQL && bo.Op != token.NEQ) {
				continue
			}
			name := ssa.Value(ltp.Params[2]) // childName
			var other ssa.Value
			if bo.X == name {
				other = bo.Y
			} else if bo.Y == name {
				other = bo.X
			} else {
				continue
			}
			// other must come from LocalHeap.GetString
			ex, ok := other.(*ssa.Extract)
			if !ok {
				continue
			}
			call, ok := ex.Tuple.(*ssa.Call)
			if !ok || c.calleeName(call) != "structures.LocalHeap.GetString" {
				continue
			}
			eq := b.Succs[0]
			if bo.Op == token.NEQ {
				eq = b.Succs[1]
			}
			// the equal edge must lead only to error returns
			ok2 := true
			for blk := range reachableFrom(eq, map[*ssa.BasicBlock]bool{b: true}) {
				if ret, isRet := blk.Instrs[len(blk.Instrs)-1].(*ssa.Return); isRet && isNilConst(retOperand(ret, 0)) {
					ok2 = false
				}
				if blk == addEntry.Block() {
					ok2 = false
				}
			}
			if ok2 {
				cmp = ifi
			}
		}
		if cmp == nil {
			r.ViolMissing(c, ltp, "C03.1", c.Name(ltp)+"#duplicate-name-check", c.InstrPos(addEntry), "AddEntry is not preceded by a scan of the parent's entries that rejects an equal name")
		} else {
			head := gateLoopHead(cmp)
			okDom := head != nil && head.Dominates(addEntry.Block()) && head.Dominates(addString.Block()) &&
				!reachableFrom(addEntry.Block(), nil)[cmp.Block()] && !reachableFrom(addString.Block(), nil)[cmp.Block()]
			r.Check(okDom, "C03.1", c.Name(ltp)+"#duplicate-name-check", c.InstrPos(cmp), "the complete scan of existing names precedes AddString and AddEntry")
			// the scan compares EVERY entry: each iteration of its loop reaches the comparison (or a failing return); an entry
			// that is skipped can carry the requested name
			var hdr *ssa.BasicBlock
			for b := cmp.Block(); b != nil && hdr == nil; b = b.Idom() {
				for _, p := range b.Preds {
					if b.Dominates(p) && p != b {
						hdr = b
					}
				}
			}
			if hdr != nil {
				loop := naturalLoop(hdr)
				skip := ""
				for _, b := range ltp.Blocks {
					if !loop[b] || b == hdr {
						continue
					}
					for _, sx := range b.Succs {
						if sx == hdr && !cmp.Block().Dominates(b) {
							skip = c.InstrPos(b.Instrs[len(b.Instrs)-1])
						}
					}
				}
				r.Check(skip == "", "C03.1", c.Name(ltp)+"#duplicate-scan-compares-every-entry", firstNonEmpty(skip, c.InstrPos(cmp)), "every iteration over the parent's entries reaches the name comparison; an entry is skipped at "+skip)
			}
		}
	}
	// C03.2 who may call
	allowed := map[string]bool{"hdf5.FileWriter.linkToParent": true}
	for _, fn := range c.LibFuncs() {
		for _, site := range callsIn(fn) {
			n := c.calleeName(site)
			if n != "structures.SymbolTableNode.AddEntry" && n != "structures.LocalHeap.AddString" {
				continue
			}
			caller := c.Name(fn)
			ok := allowed[caller] || shortPkg(fnPkgPath(fn)) == "structures"
			// constructors of fresh groups may seed their own empty structures
			if !ok {
				if recv := site.Common().Args[0]; freshObject(recv) || isFreshCallResult(recv) {
					ok = true
				}
			}
			r.Check(ok, "C03.2", caller+"#"+n, c.InstrPos(site), "names enter an existing group only through linkToParent")
		}
	}
	// C03.3 missing parent
	parentChecked := false
	for _, b := range ltp.Blocks {
		for _, in := range b.Instrs {
			lk, ok := in.(*ssa.Lookup)
			if !ok || !lk.CommaOk {
				continue
			}
			if k, _ := fieldLoadKey(lk.X); k != "hdf5.FileWriter.groups" {
				continue
			}
			if lk.Index != ssa.Value(ltp.Params[1]) {
				continue
			}
			// the !ok edge returns an error
			for _, ref := range *lk.Referrers() {
				ex, ok := ref.(*ssa.Extract)
				if !ok || ex.Index != 1 {
					continue
				}
				for _, r2 := range *ex.Referrers() {
					if ifi, ok := r2.(*ssa.If); ok {
						absent := ifi.Block().Succs[1]
						if ret, ok := absent.Instrs[len(absent.Instrs)-1].(*ssa.Return); ok && !isNilConst(retOperand(ret, 0)) {
							parentChecked = true
						}
					}
				}
			}
		}
	}
	r.CheckMissing(c, ltp, parentChecked, "C03.3", c.Name(ltp)+"#missing-parent-rejected", c.Pos(ltp.Pos()), "a non-root parent is looked up in fw.groups and its absence is an error")
	// C03.4 capacity errors
	for _, fn := range c.LibFuncs() {
		for _, site := range callsIn(fn) {
			call, ok := site.(*ssa.Call)
			if !ok {
				continue
			}
			n := c.calleeName(site)
			if n != "structures.SymbolTableNode.AddEntry" && n != "structures.LocalHeap.AddString" && n != "structures.BTreeNodeV1.AddKey" {
				continue
			}
			es := c.ClassifyErrCall(call)
			if es == nil {
				continue
			}
			r.Check(es.Kind == ErrPropagated, "C03.4", c.Name(fn)+"#"+n+"#"+es.Kind, c.InstrPos(site), "capacity error is returned to the caller "+es.Detail)
		}
	}
	r.Floor("C03.4", 3)
	// C03.5 hard link target
	if hl := c.Fn(r, "hdf5.FileWriter.CreateHardLink"); hl != nil {
		for _, site := range c.callsTo(hl, func(n string) bool { return n == "hdf5.FileWriter.linkToParent" }) {
			args := site.Common().Args
			addr := args[len(args)-1]
			ok := false
			if ex, isEx := addr.(*ssa.Extract); isEx {
				if call, isCall := ex.Tuple.(*ssa.Call); isCall && c.calleeName(call) == "hdf5.FileWriter.resolveObjectAddress" {
					// resolved from the target path parameter
					a := call.Call.Args
					ok = a[len(a)-1] == ssa.Value(hl.Params[2])
				}
			}
			r.Check(ok, "C03.5", c.Name(hl)+"#links-resolved-target", c.InstrPos(site), "the linked address is resolveObjectAddress(targetPath)")
		}
	}
	// C03.6 exact lookups (frozen list of lookup functions by role; unresolved names are checker errors)
	for _, n := range []string{"hdf5.FileWriter.resolveObjectAddress", "hdf5.FileWriter.OpenDataset", "hdf5.FileWriter.linkToParent", "hdf5.Dataset.ReadAttribute",
		"hdf5.writeCompactAttribute", "hdf5.deleteCompactAttributeFromHeader", "core.FindCompactAttribute", "core.ModifyCompactAttribute", "core.DeleteCompactAttribute"} {
		c.checkExactMatch(r, "C03.6", c.Fn(r, n))
	}
	r.Floor("C03.6", 9)
}

func isFreshCallResult(v ssa.Value) bool {
	switch x := v.(type) {
	case *ssa.Call:
		f := x.Call.StaticCallee()
		return f != nil && strings.HasPrefix(f.Name(), "New")
	case *ssa.Extract:
		return isFreshCallResult(x.Tuple)
	}
	return false
}

// ---------- C04 ----------

func ruleC04(c *Ctx, r *Result) {
	// C04.1 in-place header growth
	per := map[string][]undecidedItem{}
	for _, fn := range c.LibFuncs() {
		pk := shortPkg(fnPkgPath(fn))
		if pk != "hdf5" && pk != "core" {
			continue
		}
		for _, site := range callsIn(fn) {
			n := c.calleeName(site)
			if n != "core.WriteObjectHeader" && n != "core.RewriteObjectHeaderV2" {
				continue
			}
			addr, ok := c.fileWriteAddr(site)
			if !ok || c.freshAddr(addr, 0) {
				continue
			}
			// may the header have grown on a path to this write? growth = AddMessageToObjectHeader (directly or via callee)
			// or a store of new Data into an existing message
			grown := ""
			for _, s2 := range callsIn(fn) {
				if s2 == site || !canReach(s2.(ssa.Instruction), site.(ssa.Instruction)) {
					continue
				}
				if c.siteReaches(s2, func(name string) bool { return name == "core.AddMessageToObjectHeader" }) {
					grown = "a message is added at " + c.InstrPos(s2)
				}
			}
			for _, fs := range c.DirectFieldStores(fn) {
				if fs.Key == "core.HeaderMessage.Data" && canReach(fs.In, site.(ssa.Instruction)) {
					grown = "a message body is replaced at " + c.InstrPos(fs.In)
				}
			}
			if grown == "" {
				r.Hold("C04.1", c.Name(fn)+"#in-place-header-write", c.InstrPos(site), "no message is added or replaced before this rewrite (same or smaller size)")
				continue
			}
			// a room test: a dominating comparison that involves EndOfFile()/IsAllocated or a reserved-size field
			room := false
			for _, b := range fn.Blocks {
				ifi, ok := b.Instrs[len(b.Instrs)-1].(*ssa.If)
				if !ok || !b.Dominates(site.Block()) {
					continue
				}
				if bo, ok := ifi.Cond.(*ssa.BinOp); ok {
					for _, op := range []ssa.Value{bo.X, bo.Y} {
						if call, ok := op.(*ssa.Call); ok && strings.HasSuffix(c.calleeName(call), ".EndOfFile") {
							room = true
						}
					}
				}
			}
			if room {
				r.Hold("C04.1", c.Name(fn)+"#in-place-header-write-with-room-test", c.InstrPos(site), "growth is compared with the allocator's end of file")
			} else {
				per[c.Name(fn)] = append(per[c.Name(fn)], undecidedItem{c.InstrPos(site), "header rewritten at its existing address after " + grown + ", with no test that the larger header fits the space the object owns"})
			}
		}
	}
	r.ApplyBaseline(verifDirGlobal, "C04.1", "in-place-header-growth", per)
	r.Floor("C04.1", 5)

	// C04.2 creation writes go to owned addresses: in the creators, every file write has a fresh address
	creators := []string{"hdf5.FileWriter.CreateDataset", "hdf5.FileWriter.createChunkedDataset", "hdf5.FileWriter.CreateCompoundDataset", "hdf5.FileWriter.CreateGroup",
		"hdf5.FileWriter.createGroupStructures", "hdf5.FileWriter.CreateSoftLink", "hdf5.FileWriter.CreateExternalLink", "hdf5.createRootGroupStructureV0", "hdf5.createRootGroupStructureV2"}
	for _, n := range creators {
		fn := c.FnOpt(n)
		if fn == nil {
			if n == "hdf5.createRootGroupStructureV2" {
				continue
			}
			r.Errorf("anchor function %q does not resolve", n)
			continue
		}
		for _, site := range callsIn(fn) {
			addr, ok := c.fileWriteAddr(site)
			if !ok {
				// helper writers taking the address as a plain argument: writeXAt(fw, addr, ...)
				if f := site.Common().StaticCallee(); f != nil && shortPkg(fnPkgPath(f)) == "hdf5" && strings.HasSuffix(f.Name(), "At") {
					for _, a := range site.Common().Args {
						if b, isB := a.Type().Underlying().(*types.Basic); isB && b.Kind() == types.Uint64 {
							addr, ok = a, true
							break
						}
					}
				}
			}
			if !ok {
				continue
			}
			fresh := c.freshAddr(addr, 0) || c.withinReservedSpan(fn, addr)
			r.Check(fresh, "C04.2", c.Name(fn)+"#writes-at-unowned-address", c.InstrPos(site), "a structure written during creation goes to an address obtained from Allocate (or inside a span reserved by Allocate)")
		}
	}
	r.Floor("C04.2", 8)
	c.reservedSpanCovers(r, "C04.6")

	// C04.3 allocator cursor and raw writes
	for _, fn := range c.LibFuncs() {
		for _, fs := range c.DirectFieldStores(fn) {
			if fs.Fn != fn || !strings.HasPrefix(fs.Key, "writer.Allocator.") {
				continue
			}
			name := c.Name(fn)
			ok := strings.HasPrefix(name, "writer.Allocator.") || name == "writer.NewAllocator"
			r.Check(ok, "C04.3", name+"#"+fs.Key, c.InstrPos(fs.In), "allocator state is changed only by the allocator itself")
		}
		for _, site := range callsIn(fn) {
			n := c.calleeName(site)
			if n == "(*os.File).WriteAt" || n == "(*os.File).Write" || n == "(*os.File).Truncate" || n == "(*os.File).WriteString" {
				ok := shortPkg(fnPkgPath(fn)) == "writer"
				r.Check(ok, "C04.3", c.Name(fn)+"#"+n, c.InstrPos(site), "raw file writes happen only inside package writer")
			}
		}
	}
	r.Floor("C04.3", 3)

	// C04.4 chunk writes
	if wc := c.Fn(r, "hdf5.DatasetWriter.writeChunkedData"); wc != nil {
		for _, site := range callsIn(wc) {
			addr, ok := c.fileWriteAddr(site)
			if !ok {
				continue
			}
			k, _ := fieldLoadKey(addr)
			switch {
			case c.freshAddr(addr, 0):
				r.Hold("C04.4", c.Name(wc)+"#write-at-fresh-address", c.InstrPos(site), "")
			case k == "hdf5.DatasetWriter.layoutBTreeOffset":
				r.Hold("C04.4", c.Name(wc)+"#index-address-patch", c.InstrPos(site), "the one in-place write: the chunk-index address inside the object's own header")
			case c.ownedFixedSizeSlot(wc, addr):
				// slots that this dataset allocated itself, reused only for unfiltered chunks (all of one nominal size, C01.7):
				// ownership holds; whether the bytes written fit the slot is not decided here
				r.Undec("C04.4", c.Name(wc)+"#write-at-owned-slot", c.InstrPos(site), "chunk bytes are written to a slot this dataset allocated earlier, on a path that excludes filtered (variable-size) chunks; slot size vs bytes written is not decided (the nominal chunk size is the subject of C01.7)")
			default:
				r.Viol("C04.4", c.Name(wc)+"#write-at-existing-address", c.InstrPos(site), "chunk bytes are written to an address that was not allocated in this call: a chunk that outgrew its old slot overwrites whatever follows it")
			}
		}
		r.Floor("C04.4", 2)
	}
	// C04.5 exact binding (same rule as C03.6)
	for _, n := range []string{"hdf5.FileWriter.OpenDataset", "hdf5.FileWriter.resolveObjectAddress"} {
		c.checkExactMatch(r, "C04.5", c.Fn(r, n))
	}
	r.Floor("C04.5", 2)
}

// withinReservedSpan: addr is constant-offset arithmetic on a base that the function checks to be the result of an Allocate
// (the v0 root structures: `reserved, _ := Allocate(span); if reserved != base { error }`).
func (c *Ctx) withinReservedSpan(fn *ssa.Function, addr ssa.Value) bool {
	// find an Allocate result compared for equality with a constant, with the unequal edge failing
	var base int64 = -1
	for _, b := range fn.Blocks {
		ifi, ok := b.Instrs[len(b.Instrs)-1].(*ssa.If)
		if !ok {
			continue
		}
		bo, ok := ifi.Cond.(*ssa.BinOp)
		if !ok || (bo.Op != token.NEQ && bo.Op != token.EQL) {
			continue
		}
		if !c.freshAddr(bo.X, 0) {
			continue
		}
		k, isC := constInt(bo.Y)
		if !isC {
			// constant-folded local: evaluate
			l := c.FB(fn).lin(bo.Y)
			if !l.isConst() {
				continue
			}
			k = l.C
		}
		base = k
	}
	if base < 0 {
		return false
	}
	l := c.FB(fn).lin(addr)
	return l.isConst() && l.C >= base
}

// ---------- C10 ----------

func ruleC10(c *Ctx, r *Result) {
	// C10.1
	n101 := 0
	for _, fn := range c.LibFuncs() {
		if shortPkg(fnPkgPath(fn)) != "writer" {
			continue
		}
		var sizeVal ssa.Value
		instrs(fn, func(in ssa.Instruction) {
			if call, ok := in.(*ssa.Call); ok && call.Call.IsInvoke() && call.Call.Method.Name() == "Size" && strings.Contains(typeShort(call.Call.Value.Type()), "FileInfo") {
				sizeVal = call
			}
		})
		if sizeVal == nil {
			continue
		}
		fb := c.FB(fn)
		for _, site := range callsIn(fn) {
			if c.calleeName(site) != "writer.NewAllocator" {
				continue
			}
			n101++
			arg := site.Common().Args[0]
			ok := fb.ProveGE0At(fb.lin(arg).add(fb.lin(sizeVal), -1), site.(ssa.Instruction))
			r.Check(ok, "C10.1", c.Name(fn)+"#allocator-seeded-past-file", c.InstrPos(site), "NewAllocator("+fb.linString(fb.lin(arg))+") is proven >= the size of the existing file")
		}
	}
	r.Floor("C10.1", 1)
	_ = n101

	// C10.2 in-place addresses
	for _, spec := range []struct{ fn, prefix string }{
		{"structures.WritableBTreeV2.WriteAt", "structures.WritableBTreeV2.loaded"},
		{"structures.WritableFractalHeap.WriteAt", "structures.WritableFractalHeap.loaded"},
	} {
		fn := c.Fn(r, spec.fn)
		if fn == nil {
			continue
		}
		reach := c.Reach([]*ssa.Function{fn}, func(f *ssa.Function) bool { return shortPkg(fnPkgPath(f)) != "structures" })
		var fns []*ssa.Function
		for f := range reach {
			fns = append(fns, f)
		}
		sortFuncs(c, fns)
		for _, f := range fns {
			for _, site := range callsIn(f) {
				if !site.Common().IsInvoke() || site.Common().Method.Name() != "WriteAtAddress" {
					continue
				}
				addr := site.Common().Args[len(site.Common().Args)-1]
				ok := false
				switch a := addr.(type) {
				case *ssa.Parameter:
					// helper writeXAt(writer, addr, ...): its callers in this reach pass loaded addresses
					ok = c.paramAlwaysLoadedField(a, spec.prefix, reach)
				default:
					k, _ := fieldLoadKey(addr)
					ok = strings.HasPrefix(k, spec.prefix)
				}
				r.Check(ok, "C10.2", c.Name(f)+"#writes-at-loaded-address", c.InstrPos(site), "in-place rewrite targets an address recorded when the structure was loaded")
			}
		}
	}
	// the loaded* fields are assigned only by LoadFromFile / WriteToFile
	for _, fn := range c.LibFuncs() {
		for _, fs := range c.DirectFieldStores(fn) {
			if fs.Fn != fn || !(strings.HasPrefix(fs.Key, "structures.WritableBTreeV2.loaded") || strings.HasPrefix(fs.Key, "structures.WritableFractalHeap.loaded")) {
				continue
			}
			name := c.Name(fn)
			ok := strings.HasSuffix(name, ".LoadFromFile") || strings.HasSuffix(name, ".WriteToFile")
			r.Check(ok, "C10.2", name+"#"+fs.Key, c.InstrPos(fs.In), "recorded addresses are set only when the structure is loaded or first written")
		}
	}
	r.Floor("C10.2", 4)

	// C10.3 no-op session
	if ofw := c.Fn(r, "hdf5.OpenForWrite"); ofw != nil {
		reach := c.Reach([]*ssa.Function{ofw}, func(f *ssa.Function) bool { return !libPackage(fnPkgPath(f)) })
		bad := ""
		var fns []*ssa.Function
		for f := range reach {
			fns = append(fns, f)
		}
		sortFuncs(c, fns)
		for _, f := range fns {
			for _, site := range callsIn(f) {
				if isFileWritePrimitive(c.calleeName(site)) && bad == "" {
					bad = c.calleeName(site) + " in " + c.Name(f) + " at " + c.InstrPos(site)
				}
			}
		}
		r.Check(bad == "", "C10.3", c.Name(ofw)+"#opens-without-writing", c.Pos(ofw.Pos()), "no file-write primitive is reachable from OpenForWrite "+bad)
	}
	if cl := c.Fn(r, "hdf5.FileWriter.Close"); cl != nil {
		// every call in Close that can reach a file write must be (a) the heap flush, whose write is guarded by `currentHeap != nil`,
		// (b) behind a comparison that involves EndOfFile(), or (c) the writer-level Flush/Close (sync and close the descriptor)
		for _, site := range callsIn(cl) {
			n := c.calleeName(site)
			if _, isDefer := site.(*ssa.Defer); isDefer {
				continue
			}
			writes := isFileWritePrimitive(n) && n != "writer.FileWriter.Flush"
			if !writes {
				for _, g := range c.Callees(site) {
					if libPackage(fnPkgPath(g)) && c.reachesCallee(g, func(x string) bool { return isFileWritePrimitive(x) && x != "writer.FileWriter.Flush" }) {
						writes = true
					}
				}
			}
			if !writes {
				continue
			}
			switch {
			case n == "hdf5.globalHeapWriter.Flush":
				ok := c.heapFlushGuarded()
				r.Check(ok, "C10.3", c.Name(cl)+"#"+n, c.InstrPos(site), "the heap flush writes only when a collection holds buffered objects (guarded by currentHeap != nil)")
			default:
				guardedByEOF := false
				for _, b := range cl.Blocks {
					ifi, ok := b.Instrs[len(b.Instrs)-1].(*ssa.If)
					if !ok || !edgeDominates(b, b.Succs[0], site.Block()) {
						continue
					}
					if condMentionsEOF(c, ifi.Cond, 0) {
						guardedByEOF = true
					}
				}
				if !guardedByEOF {
					// the update may live in a helper that tests the end of file itself
					if g := site.Common().StaticCallee(); g != nil && g.Blocks != nil && shortPkg(fnPkgPath(g)) == "hdf5" {
						guardedByEOF = c.writesGuardedByEOF(g)
					}
				}
				r.Check(guardedByEOF, "C10.3", c.Name(cl)+"#"+n, c.InstrPos(site), "a write in Close is conditional on the allocator's end of file having moved during the session")
			}
		}
	}
	r.Floor("C10.3", 2)
	// C10.4 shared with C15.5: the dense-attribute heap is loaded, modified and written back in every session
	ruleHeapCursor(c, r, "C10.4")
	r.Floor("C10.4", 4)
}

func condMentionsEOF(c *Ctx, v ssa.Value, d int) bool {
	if d > 6 {
		return false
	}
	switch x := v.(type) {
	case *ssa.Call:
		return strings.HasSuffix(c.calleeName(x), ".EndOfFile")
	case *ssa.BinOp:
		return condMentionsEOF(c, x.X, d+1) || condMentionsEOF(c, x.Y, d+1)
	case *ssa.UnOp:
		return condMentionsEOF(c, x.X, d+1)
	case *ssa.Phi:
		for _, e := range x.Edges {
			if condMentionsEOF(c, e, d+1) {
				return true
			}
		}
	}
	return false
}

func (c *Ctx) heapFlushGuarded() bool {
	fl := c.FnOpt("hdf5.globalHeapWriter.flushCurrentHeap")
	if fl == nil || len(fl.Blocks) == 0 {
		return false
	}
	b := fl.Blocks[0]
	ifi, ok := b.Instrs[len(b.Instrs)-1].(*ssa.If)
	if !ok {
		return false
	}
	bo, ok := ifi.Cond.(*ssa.BinOp)
	if !ok || !isNilConst(bo.Y) {
		return false
	}
	k, _ := fieldLoadKey(bo.X)
	return k == "hdf5.globalHeapWriter.currentHeap"
}

// paramAlwaysLoadedField: every static call site (inside the reach) passes a load of a field with the prefix.
func (c *Ctx) paramAlwaysLoadedField(p *ssa.Parameter, prefix string, reach map[*ssa.Function]bool) bool {
	fn := p.Parent()
	idx := paramIndex(fn, p)
	node := c.CG.Nodes[fn]
	if node == nil || idx < 0 {
		return false
	}
	n := 0
	var callers []string
	for _, e := range node.In {
		if e.Site == nil || !reach[e.Site.Parent()] {
			continue
		}
		if idx >= len(e.Site.Common().Args) {
			return false
		}
		k, _ := fieldLoadKey(e.Site.Common().Args[idx])
		if !strings.HasPrefix(k, prefix) {
			callers = append(callers, c.Name(e.Site.Parent()))
			continue
		}
		n++
	}
	sort.Strings(callers)
	return n > 0 && len(callers) == 0
}

// ownedFixedSizeSlot: every source of addr is either a fresh allocation or an element of a DatasetWriter slice field into which
// the module only ever appends fresh allocations, and the element load is control-dependent on a "no filter pipeline" test.
func (c *Ctx) ownedFixedSizeSlot(fn *ssa.Function, addr ssa.Value) bool {
	var slotLoads []*ssa.UnOp
	ok := true
	seen := map[ssa.Value]bool{}
	var walk func(v ssa.Value)
	walk = func(v ssa.Value) {
		if seen[v] || !ok {
			return
		}
		seen[v] = true
		if c.freshAddr(v, 0) {
			return
		}
		switch x := v.(type) {
		case *ssa.Phi:
			for _, e := range x.Edges {
				walk(e)
			}
		case *ssa.UnOp:
			ia, isIA := x.X.(*ssa.IndexAddr)
			if !isIA {
				ok = false
				return
			}
			k, _ := fieldLoadKey(ia.X)
			if !strings.HasPrefix(k, "hdf5.DatasetWriter.") {
				ok = false
				return
			}
			// every store into that field: append(field, fresh...) or nil/make
			for _, f := range c.LibFuncs() {
				for _, fs := range c.DirectFieldStores(f) {
					if fs.Fn != f || fs.Key != k {
						continue
					}
					st, isSt := fs.In.(*ssa.Store)
					if !isSt {
						ok = false
						continue
					}
					if !c.appendOfFresh(st.Val) {
						ok = false
					}
				}
			}
			slotLoads = append(slotLoads, x)
		default:
			ok = false
		}
	}
	walk(addr)
	if !ok || len(slotLoads) == 0 {
		return false
	}
	// each slot load sits behind a test that derives from "pipeline is nil/empty"
	for _, ld := range slotLoads {
		guarded := false
		for _, b := range fn.Blocks {
			ifi, isIf := b.Instrs[len(b.Instrs)-1].(*ssa.If)
			if !isIf || !edgeDominates(b, b.Succs[0], ld.Block()) {
				continue
			}
			if c.derivesFromNoFilter(ifi.Cond, 0) {
				guarded = true
			}
		}
		if !guarded {
			return false
		}
	}
	return true
}

func (c *Ctx) appendOfFresh(v ssa.Value) bool {
	switch x := v.(type) {
	case *ssa.Const:
		return x.IsNil()
	case *ssa.MakeSlice:
		return true
	case *ssa.Call:
		if b, isB := x.Call.Value.(*ssa.Builtin); isB && b.Name() == "append" {
			// appended elements: the variadic slice's stores
			if len(x.Call.Args) < 2 {
				return true
			}
			sl, isSl := x.Call.Args[1].(*ssa.Slice)
			if !isSl {
				return false
			}
			al, isAl := sl.X.(*ssa.Alloc)
			if !isAl {
				return false
			}
			for _, ref := range *al.Referrers() {
				if ia, isIA := ref.(*ssa.IndexAddr); isIA {
					for _, r2 := range *ia.Referrers() {
						if st, isSt := r2.(*ssa.Store); isSt && !c.freshAddr(st.Val, 0) {
							return false
						}
					}
				}
			}
			return true
		}
	case *ssa.Phi:
		for _, e := range x.Edges {
			if !c.appendOfFresh(e) {
				return false
			}
		}
		return true
	}
	return false
}

func (c *Ctx) derivesFromNoFilter(v ssa.Value, d int) bool {
	if d > 6 {
		return false
	}
	switch x := v.(type) {
	case *ssa.Call:
		return strings.HasSuffix(c.calleeName(x), "FilterPipeline.IsEmpty")
	case *ssa.BinOp:
		if x.Op == token.EQL && (isNilConst(x.X) || isNilConst(x.Y)) {
			for f := range fieldsReadBy(x.X) {
				if strings.HasSuffix(f, ".pipeline") {
					return true
				}
			}
			for f := range fieldsReadBy(x.Y) {
				if strings.HasSuffix(f, ".pipeline") {
					return true
				}
			}
		}
		return c.derivesFromNoFilter(x.X, d+1) || c.derivesFromNoFilter(x.Y, d+1)
	case *ssa.Phi:
		for _, e := range x.Edges {
			if c.derivesFromNoFilter(e, d+1) {
				return true
			}
		}
	case *ssa.UnOp:
		return c.derivesFromNoFilter(x.X, d+1)
	}
	return false
}

// ---- additional necessary conditions found by the third round of seeded changes ----

func init() {
	reg := registry["C03"]
	reg.Meta.Rules["C03.7"] = "the writer's group registry is assigned only after the group has been linked into its parent successfully (a rejected creation must not replace the entry of the existing group)"
	reg.Meta.Rules["C03.8"] = "an object obtained from a cache or registry look-up is not modified in place on the hit path (two paths to one object would otherwise see each other's name)"
	reg.Rules = append(reg.Rules, c03registryAfterLink, c03cacheHitsImmutable)
}

func c03registryAfterLink(c *Ctx, r *Result) {
	n := 0
	for _, fn := range c.LibFuncs() {
		if shortPkg(fnPkgPath(fn)) != "hdf5" {
			continue
		}
		instrs(fn, func(in ssa.Instruction) {
			mu, ok := in.(*ssa.MapUpdate)
			if !ok {
				return
			}
			k, _ := fieldLoadKey(mu.Map)
			if k != "hdf5.FileWriter.groups" {
				return
			}
			n++
			// root registration (constant "/" key) has no parent to link into
			if kc, isK := mu.Key.(*ssa.Const); isK && kc.Value != nil && kc.Value.ExactString() == "\"/\"" {
				r.Hold("C03.7", c.Name(fn)+"#registry-after-link", c.InstrPos(mu), "root group: no parent")
				return
			}
			ok = false
			for _, site := range callsIn(fn) {
				if c.calleeName(site) != "hdf5.FileWriter.linkToParent" {
					continue
				}
				call, isCall := site.(*ssa.Call)
				if !isCall {
					continue
				}
				for _, ref := range *call.Referrers() {
					bo, isB := ref.(*ssa.BinOp)
					if !isB || (bo.Op != token.NEQ && bo.Op != token.EQL) {
						continue
					}
					for _, r2 := range *bo.Referrers() {
						if ifi, isIf := r2.(*ssa.If); isIf {
							pass := ifi.Block().Succs[1]
							if bo.Op == token.EQL {
								pass = ifi.Block().Succs[0]
							}
							if edgeDominates(ifi.Block(), pass, mu.Block()) {
								ok = true
							}
						}
					}
				}
			}
			r.Check(ok, "C03.7", c.Name(fn)+"#registry-after-link", c.InstrPos(mu), "fw.groups[path] is assigned on the nil-error edge of linkToParent only")
		})
	}
	if n < 1 {
		r.Errorf("C03.7: no assignment to the group registry found")
	}
	r.Floor("C03.7", 1)
}

func c03cacheHitsImmutable(c *Ctx, r *Result) {
	n := 0
	for _, fn := range c.LibFuncs() {
		if shortPkg(fnPkgPath(fn)) != "hdf5" {
			continue
		}
		instrs(fn, func(in ssa.Instruction) {
			lk, ok := in.(*ssa.Lookup)
			if !ok {
				return
			}
			mt, ok := lk.X.Type().Underlying().(*types.Map)
			if !ok {
				return
			}
			if _, isPtr := mt.Elem().Underlying().(*types.Pointer); !isPtr {
				return
			}
			if derefStruct(mt.Elem()) == nil {
				return
			}
			// only maps held in a field (caches / registries), not locals
			if k, _ := fieldLoadKey(lk.X); k == "" {
				return
			}
			n++
			var hit ssa.Value = lk
			if lk.CommaOk {
				hit = nil
				for _, ref := range *lk.Referrers() {
					if ex, isEx := ref.(*ssa.Extract); isEx && ex.Index == 0 {
						hit = ex
					}
				}
			}
			if hit == nil {
				return
			}
			// stores through the hit pointer in this function
			var bad ssa.Instruction
			seen := map[ssa.Value]bool{}
			var walk func(v ssa.Value)
			walk = func(v ssa.Value) {
				if seen[v] || v.Referrers() == nil {
					return
				}
				seen[v] = true
				for _, ref := range *v.Referrers() {
					switch x := ref.(type) {
					case *ssa.FieldAddr:
						for _, r2 := range *x.Referrers() {
							if st, isSt := r2.(*ssa.Store); isSt && st.Addr == ssa.Value(x) {
								bad = st
							}
						}
					case *ssa.Phi:
						walk(x)
					}
				}
			}
			walk(hit)
			k, _ := fieldLoadKey(lk.X)
			r.Check(bad == nil, "C03.8", c.Name(fn)+"#"+k+"#hit-not-modified", c.InstrPos(lk), "the object found in "+k+" is used as it is; it is not renamed or rewritten on the hit path")
		})
	}
	if n < 3 {
		r.Errorf("C03.8: only %d registry/cache look-ups found", n)
	}
	r.Floor("C03.8", 3)
}

func init() {
	reg := registry["C03"]
	reg.Meta.Rules["C03.9"] = "objects cached by the reader are keyed by everything they are built from (an object cached by address alone carries the name of the first link that reached it: later links are listed under the wrong name)"
	reg.Meta.Rules["C03.10"] = "the 'not found' result (-1) of a forward byte/string search is never used as a position or size without a dominating test (a name heap whose used size comes from such a search is taken to be empty exactly when it is full)"
	except("C03", "C03.10", "hdf5.parsePath#strings.LastIndex#high-bound", "every caller has verified that the path starts with '/' (validateGroupPath / validateDatasetName / validateLinkPath / resolveObjectAddress's own test) and parsePath only strips a trailing slash of a path longer than '/', so a '/' is always found")
	reg.Rules = append(reg.Rules, func(c *Ctx, r *Result) {
		memoKeyRule(c, r, "C03.9")
		c.sentinelRule(r, "C03.10")
	})
}

// sentinelRule: results of {bytes,strings}.{Index*,LastIndex*} that flow into arithmetic, slice bounds, indices or
// allocation sizes must be known non-negative there (dominating test), except the basename idiom s[LastIndex(..)+1:].
func (c *Ctx) sentinelRule(r *Result, rule string) {
	n := 0
	for _, fn := range c.LibFuncs() {
		fb := c.FB(fn)
		instrs(fn, func(in ssa.Instruction) {
			call, ok := in.(*ssa.Call)
			if !ok {
				return
			}
			f := call.Call.StaticCallee()
			if f == nil || f.Pkg == nil {
				return
			}
			pk := f.Pkg.Pkg.Path()
			if (pk != "bytes" && pk != "strings") || !(strings.HasPrefix(f.Name(), "Index") || strings.HasPrefix(f.Name(), "LastIndex")) {
				return
			}
			last := strings.HasPrefix(f.Name(), "LastIndex")
			// uses
			var check func(v ssa.Value, viaPlus1 bool, depth int)
			seen := map[ssa.Value]bool{}
			check = func(v ssa.Value, viaPlus1 bool, depth int) {
				if seen[v] || depth > 4 || v.Referrers() == nil {
					return
				}
				seen[v] = true
				for _, ref := range *v.Referrers() {
					role := ""
					switch x := ref.(type) {
					case *ssa.BinOp:
						switch x.Op {
						case token.EQL, token.NEQ, token.LSS, token.LEQ, token.GTR, token.GEQ:
							continue // a test
						}
						if k, isK := constInt(x.Y); isK && k == 1 && x.Op == token.ADD && x.X == v {
							check(x, true, depth+1)
							continue
						}
						role = "arithmetic"
					case *ssa.Convert:
						check(x, viaPlus1, depth+1)
						continue
					case *ssa.Phi:
						check(x, viaPlus1, depth+1)
						continue
					case *ssa.Slice:
						switch {
						case x.Low == v:
							if last && viaPlus1 {
								continue // basename idiom: s[LastIndex(s, sep)+1:] is the whole string when sep is absent
							}
							role = "low-bound"
						case x.High == v:
							role = "high-bound"
						case x.Max == v:
							role = "max-bound"
						default:
							continue
						}
					case *ssa.IndexAddr:
						if x.Index != v {
							continue
						}
						role = "index"
					case *ssa.MakeSlice:
						role = "size"
					case *ssa.Store:
						if x.Val != v {
							continue
						}
						role = "stored"
					case *ssa.Return:
						continue
					case *ssa.Call:
						continue
					default:
						continue
					}
					n++
					ui := ref.(ssa.Instruction)
					cons := c.Name(fn) + "#" + pk + "." + f.Name() + "#" + role
					// the search result itself must be known >= 0 where it is used
					// (a search returns -1 or a position: behind `result != -1` it is a position)
					if fb.ProveGE0At(fb.lin(call), ui) || behindNotMinusOne(fn, call, ui) {
						r.Hold(rule, cons, c.InstrPos(ui), "the search result is known to be non-negative here")
					} else {
						r.Viol(rule, cons, c.InstrPos(ui), "the result of "+pk+"."+f.Name()+" is used as a position/size here although it may be -1 (not found): no dominating test excludes it")
					}
				}
			}
			check(call, false, 0)
		})
	}
	r.Floor(rule, 1)
	_ = n
}

func init() {
	registry["C04"].Meta.Rules["C04.6"] = "a span reserved for structures written at fixed offsets covers each of them to its last byte: reserved base + span >= fixed address + serialized size (sizes and addresses evaluated as constants through constructors and Size methods); otherwise the next allocation lands on the tail of the last structure"
}

// reservedSpanCovers: in a function that reserves a span with Allocate, tests the returned base against a constant and then
// writes objects at constant addresses: each object with a Size method must end inside the span.
func (c *Ctx) reservedSpanCovers(r *Result, rule string) {
	n := 0
	for _, fn := range c.LibFuncs() {
		if shortPkg(fnPkgPath(fn)) != "hdf5" {
			continue
		}
		// the reservation: Allocate(span) whose result is compared with a constant base
		var span ssa.Value
		base := int64(-1)
		for _, b := range fn.Blocks {
			ifi, ok := b.Instrs[len(b.Instrs)-1].(*ssa.If)
			if !ok {
				continue
			}
			bo, ok := ifi.Cond.(*ssa.BinOp)
			if !ok || (bo.Op != token.NEQ && bo.Op != token.EQL) {
				continue
			}
			ex, ok := bo.X.(*ssa.Extract)
			if !ok {
				continue
			}
			call, ok := ex.Tuple.(*ssa.Call)
			if !ok || !strings.HasSuffix(c.calleeName(call), ".Allocate") {
				continue
			}
			if k, ok := c.constEval(bo.Y); ok {
				base = k
				span = call.Call.Args[len(call.Call.Args)-1]
			}
		}
		if span == nil {
			continue
		}
		spanK, spanOK := c.constEval(span)
		for _, site := range callsIn(fn) {
			call, ok := site.(*ssa.Call)
			if !ok {
				continue
			}
			addr, ok := c.fileWriteAddr(site)
			if !ok || len(call.Call.Args) == 0 {
				continue
			}
			addrK, ok := c.constEval(addr)
			if !ok || addrK < base {
				continue
			}
			// the written object's serialized size: its Size method
			recv := call.Call.Args[0]
			if !isPointerToStruct(recv.Type()) {
				continue
			}
			named, _ := recv.Type().Underlying().(*types.Pointer).Elem().(*types.Named)
			if named == nil {
				continue
			}
			sizeFn := c.Prog.LookupMethod(recv.Type(), named.Obj().Pkg(), "Size")
			if sizeFn == nil || sizeFn.Blocks == nil || len(sizeFn.Params) != 1 {
				continue
			}
			e := &cenv{c: c, param: map[*ssa.Parameter]cval{}}
			sub := &cenv{c: c, param: map[*ssa.Parameter]cval{sizeFn.Params[0]: e.object(recv)}, depth: 1}
			var sz cval
			if sub.simulate(sizeFn) && len(sub.ret.Results) == 1 {
				sz = sub.eval(sub.ret.Results[0])
			}
			n++
			cons := c.Name(fn) + "#" + c.calleeName(call) + "#inside-reserved-span"
			if !spanOK || !sz.known {
				r.Undec(rule, cons, c.InstrPos(call), "span or serialized size is not a constant the evaluator can compute")
				continue
			}
			r.Check(addrK+sz.n <= base+spanK, rule, cons, c.InstrPos(call), "structure at "+itoa(int(addrK))+" with serialized size "+itoa(int(sz.n))+" ends at "+itoa(int(addrK+sz.n))+"; the reserved span ["+itoa(int(base))+", "+itoa(int(base+spanK))+") must contain it")
		}
	}
	if n == 0 {
		r.Undec(rule, "hdf5#reserved-span", "", "no fixed-offset write of an object with a Size method inside a reserved span found")
	}
}

func init() {
	registry["C04"].Meta.Rules["C04.7"] = "a symbol table node loaded for modification accepts no more entries than its fixed on-disk size holds: its capacity is at most the node size the writers serialize (maxEntries of WriteAt) or the number of entries it already had"
	registry["C04"].Rules = append(registry["C04"].Rules, func(c *Ctx, r *Result) {
		fn := c.Fn(r, "structures.ParseSymbolTableNode")
		if fn == nil {
			return
		}
		// the node size the writers serialize
		kw := int64(-1)
		for _, g := range c.LibFuncs() {
			for _, site := range callsIn(g) {
				if c.calleeName(site) != "structures.SymbolTableNode.WriteAt" {
					continue
				}
				args := site.Common().Args
				if len(args) < 5 {
					continue
				}
				if k, ok := c.constEval(args[4]); ok && (kw < 0 || k < kw) {
					kw = k
				}
			}
		}
		if kw < 0 {
			r.Undec("C04.7", c.Name(fn)+"#capacity-within-node-size", c.Pos(fn.Pos()), "no constant maxEntries at the WriteAt call sites")
			return
		}
		fb := c.FB(fn)
		var numSymbols ssa.Value
		for _, fs := range c.DirectFieldStores(fn) {
			if fs.Fn == fn && fs.Key == "structures.SymbolTableNode.NumSymbols" {
				numSymbols = fs.Val
			}
		}
		found := false
		instrs(fn, func(in ssa.Instruction) {
			mk, ok := in.(*ssa.MakeSlice)
			if !ok || !strings.Contains(typeShort(mk.Type()), "SymbolTableEntry") {
				return
			}
			found = true
			var edges []ssa.Value
			var collect func(v ssa.Value, d int)
			collect = func(v ssa.Value, d int) {
				v = stripConv(v)
				if phi, ok := v.(*ssa.Phi); ok && d < 4 {
					for _, e := range phi.Edges {
						collect(e, d+1)
					}
					return
				}
				// max(a, b): at most the larger of what each argument may be
				if call, ok := v.(*ssa.Call); ok && d < 4 {
					if b, isB := call.Call.Value.(*ssa.Builtin); isB && (b.Name() == "max" || b.Name() == "min") {
						for _, a := range call.Call.Args {
							collect(a, d+1)
						}
						return
					}
				}
				edges = append(edges, v)
			}
			collect(mk.Cap, 0)
			ok2 := true
			why := ""
			for _, e := range edges {
				if k, isK := constInt(e); isK {
					if k > kw {
						ok2, why = false, "constant capacity "+itoa(int(k))+" exceeds the serialized node size "+itoa(int(kw))
					}
					continue
				}
				if numSymbols != nil && fb.prove(fb.lin(numSymbols).add(fb.lin(e), -1), nil, 3) {
					continue
				}
				ok2, why = false, "a capacity of more than the entries already present is granted"
			}
			r.Check(ok2, "C04.7", c.Name(fn)+"#capacity-within-node-size", c.InstrPos(mk), "capacity of a loaded node <= max("+itoa(int(kw))+", entries already present) "+why)
		})
		if !found {
			r.Undec("C04.7", c.Name(fn)+"#capacity-within-node-size", c.Pos(fn.Pos()), "entry slice allocation not recognised")
		}
	})
}

func init() {
	reg := registry["C10"]
	reg.Meta.Rules["C10.6"] = "on the cached-header paths the header that is modified and written is the cached one: below write/deleteAttributeWithCachedHeader no callee rewrites the object header from a copy it read itself (a function that reaches WriteObjectHeader without being handed the cached *ObjectHeader), and WriteObjectHeader receives the cached header"
	reg.Rules = append(reg.Rules, func(c *Ctx, r *Result) {
		var roots []*ssa.Function
		for _, n := range []string{"hdf5.writeAttributeWithCachedHeader", "hdf5.deleteAttributeWithCachedHeader"} {
			if f := c.Fn(r, n); f != nil {
				roots = append(roots, f)
			}
		}
		if len(roots) == 0 {
			return
		}
		isOH := func(t types.Type) bool { return typeShort(t) == "*core.ObjectHeader" }
		ohParam := func(f *ssa.Function) *ssa.Parameter {
			for _, p := range f.Params {
				if isOH(p.Type()) {
					return p
				}
			}
			return nil
		}
		set := c.Reach(roots, func(f *ssa.Function) bool { return shortPkg(fnPkgPath(f)) != "hdf5" || ohParam(f) == nil })
		var fns []*ssa.Function
		for f := range set {
			if shortPkg(fnPkgPath(f)) == "hdf5" && ohParam(f) != nil && f.Blocks != nil {
				fns = append(fns, f)
			}
		}
		sort.Slice(fns, func(i, j int) bool { return c.Name(fns[i]) < c.Name(fns[j]) })
		writesHeader := func(n string) bool { return n == "core.WriteObjectHeader" }
		n := 0
		for _, f := range fns {
			cache := ohParam(f)
			for _, site := range callsIn(f) {
				name := c.calleeName(site)
				g := site.Common().StaticCallee()
				if g == nil {
					continue
				}
				if name == "core.WriteObjectHeader" {
					n++
					ok := false
					for _, a := range site.Common().Args {
						if a == ssa.Value(cache) {
							ok = true
						}
					}
					r.Check(ok, "C10.6", c.Name(f)+"#writes-the-cached-header", c.InstrPos(site.(ssa.Instruction)), "WriteObjectHeader is given the cached header this function received")
					continue
				}
				if !inModule(fnPkgPath(g)) || g.Blocks == nil {
					continue
				}
				if !(writesHeader(c.Name(g)) || c.reachesCallee(g, writesHeader)) {
					continue
				}
				n++
				passes := false
				for _, a := range site.Common().Args {
					if a == ssa.Value(cache) {
						passes = true
					}
				}
				r.Check(passes, "C10.6", c.Name(f)+"#"+name+"#header-rewritten-through-the-cache", c.InstrPos(site.(ssa.Instruction)), name+" rewrites the object header; it must be handed the cached header (a callee that reads its own copy from the file leaves the cache stale, and the next write through the handle restores what was just changed)")
			}
		}
		if n < 3 {
			r.Errorf("C10.6: only %d header-writing call sites below the cached-header paths", n)
		}
	})
}

func init() {
	reg := registry["C03"]
	reg.Meta.Rules["C03.11"] = "a rejected creation leaves no path behind: in the link/group creation entry points and linkToParent no logical failure exit is reachable after the parent group, the registry or a target header was changed (same analysis as C16.1, restricted to the name space)"
	except("C03", "C03.11", "hdf5.FileWriter.CreateHardLink#error-return(hdf5.FileWriter.linkToParent)#after-mutation",
		"rollback path: the reference count is decremented and the header rewritten before this return (pairing checked by C16.2); the link itself was not inserted")
	reg.Rules = append(reg.Rules, func(c *Ctx, r *Result) {
		isMut := func(name string) bool {
			f := c.FnOpt(name)
			return f != nil && shortPkg(fnPkgPath(f)) == "hdf5" && c.mutates(f, 0)
		}
		n := 0
		for _, name := range []string{"hdf5.FileWriter.CreateHardLink", "hdf5.FileWriter.CreateSoftLink", "hdf5.FileWriter.CreateExternalLink",
			"hdf5.FileWriter.CreateGroup", "hdf5.FileWriter.CreateGroupWithLinks", "hdf5.FileWriter.CreateDenseGroup", "hdf5.FileWriter.linkToParent"} {
			fn := c.FnOpt(name)
			if fn == nil || len(errorReturns(fn)) == 0 {
				continue
			}
			n++
			c.checkAtomicFailure(r, "C03.11", fn, isMut)
		}
		if n < 4 {
			r.Errorf("C03.11: only %d creation entry points resolved", n)
		}
	})
}

func init() {
	reg := registry["C10"]
	reg.Meta.Rules["C10.7"] = "a modification made through a reopened handle reaches the file completely: every success return of a function that loads heap and name index and changes them is preceded by the write-back of both (shared with C02.2)"
	reg.Rules = append(reg.Rules, func(c *Ctx, r *Result) { denseWriteBackRule(c, r, "C10.7") })
}

func init() {
	reg := registry["C10"]
	reg.Meta.Rules["C10.8"] = "what WriteAt writes in place was located by LoadFromFile: every address field of the writable B-tree / fractal heap that WriteAt uses as a write address is stored on every path to a successful return of LoadFromFile (a tree that happens to be empty still has its leaf at the recorded address; address 0 is the superblock)"
	reg.Rules = append(reg.Rules, func(c *Ctx, r *Result) {
		n := 0
		for _, tn := range []string{"structures.WritableBTreeV2", "structures.WritableFractalHeap"} {
			load, wat := c.FnOpt(tn+".LoadFromFile"), c.FnOpt(tn+".WriteAt")
			if load == nil || wat == nil {
				continue
			}
			// address fields WriteAt writes at: arguments of WriteAtAddress / WriteAt calls (transitively one level) read from the receiver
			used := map[string]bool{}
			var scan func(f *ssa.Function, d int)
			scan = func(f *ssa.Function, d int) {
				for _, site := range callsIn(f) {
					if addr, ok := c.fileWriteAddr(site); ok {
						for k := range fieldsReadBy(addr) {
							if strings.HasPrefix(k, tn+".") {
								used[k] = true
							}
						}
					}
					if g := site.Common().StaticCallee(); g != nil && d < 1 && g.Blocks != nil && strings.HasPrefix(c.Name(g), tn+".") {
						// address handed to a helper method
						for _, a := range site.Common().Args {
							if b, isB := a.Type().Underlying().(*types.Basic); isB && b.Kind() == types.Uint64 {
								for k := range fieldsReadBy(a) {
									if strings.HasPrefix(k, tn+".") {
										used[k] = true
									}
								}
							}
						}
					}
				}
			}
			scan(wat, 0)
			var keys []string
			for k := range used {
				keys = append(keys, k)
			}
			sort.Strings(keys)
			for _, k := range keys {
				for _, ret := range successReturns(load) {
					n++
					ok := mustPrecede(ret, func(in ssa.Instruction) bool {
						st, isSt := in.(*ssa.Store)
						if !isSt {
							return false
						}
						f, base := fieldOfAddr(st.Addr)
						return f != nil && fieldKey(base.Type(), f) == k
					})
					r.Check(ok, "C10.8", c.Name(load)+"#"+k+"#recorded-on-every-success-path", c.InstrPos(ret), "WriteAt writes at "+lastSeg(k)+"; LoadFromFile must have recorded it on every path to this successful return")
				}
			}
		}
		if n == 0 {
			r.Undec("C10.8", "structures#loaded-addresses", "", "no receiver field used as an in-place write address found")
		}
	})
}

func init() {
	reg := registry["C04"]
	reg.Meta.Rules["C04.8"] = "what the allocator hands out lies below its cursor: in every Allocator method that returns an address, the cursor it stores is at least the returned address plus the requested size (an aligned allocation that advances the cursor by the size only leaves the block's tail to the next caller)"
	reg.Rules = append(reg.Rules, func(c *Ctx, r *Result) {
		n := 0
		for _, fn := range c.LibFuncs() {
			if !strings.HasPrefix(c.Name(fn), "writer.Allocator.") || fn.Blocks == nil {
				continue
			}
			var size *ssa.Parameter
			for _, p := range fn.Params {
				if strings.ToLower(p.Name()) == "size" && isIntType(p.Type()) {
					size = p
				}
			}
			res := fn.Signature.Results()
			if size == nil || res.Len() != 2 || !isIntType(res.At(0).Type()) {
				continue
			}
			var cursorStore *ssa.Store
			for _, fs := range c.DirectFieldStores(fn) {
				if fs.Fn == fn && fs.Key == "writer.Allocator.nextOffset" {
					if st, ok := fs.In.(*ssa.Store); ok {
						cursorStore = st
					}
				}
			}
			if cursorStore == nil {
				continue
			}
			fb := c.FB(fn)
			// every load of the cursor that happens before the store denotes the same (old) value
			old := struct{ name string }{"old-cursor"}
			norm := func(l Lin) Lin {
				out := linConst(l.C)
				for k, coef := range l.T {
					if v, ok := k.(ssa.Value); ok {
						if key, _ := fieldLoadKey(v); key == "writer.Allocator.nextOffset" {
							if in, isIn := v.(ssa.Instruction); isIn && !canReach(cursorStore, in) {
								out = out.add(linSym(old), coef)
								continue
							}
						}
					}
					out = out.add(linSym(k), coef)
				}
				return out
			}
			for _, ret := range successReturns(fn) {
				n++
				goal := norm(fb.lin(cursorStore.Val)).add(norm(fb.lin(retOperand(ret, 0))), -1).add(fb.lin(size), -1)
				ok := fb.prove(goal, fb.blockFacts(ret.Block()), 3)
				if !ok {
					opaque := false
					for k := range goal.T {
						if _, isCall := k.(*ssa.Call); isCall {
							opaque = true
						}
					}
					if opaque {
						r.Undec("C04.8", c.Name(fn)+"#cursor-beyond-returned-block", c.InstrPos(cursorStore), "the new cursor is computed by a call the arithmetic does not see through: "+fb.linString(goal))
						continue
					}
				}
				r.Check(ok, "C04.8", c.Name(fn)+"#cursor-beyond-returned-block", c.InstrPos(cursorStore), "new cursor - (returned address + size) = "+fb.linString(goal)+" must be >= 0")
			}
		}
		if n == 0 {
			r.Undec("C04.8", "writer.Allocator#cursor", "", "no allocating method recognised")
		}
	})
}

// releasesParamBuffers: fn hands buffers reachable from one of its parameters back to the buffer pool (utils.ReleaseBuffer on
// the parameter itself or on something loaded through it); returns the parameter indices.
func (c *Ctx) releasesParamBuffers(fn *ssa.Function, depth int) map[int]bool {
	out := map[int]bool{}
	if fn == nil || fn.Blocks == nil || depth > 2 {
		return out
	}
	rootParam := func(v ssa.Value) int {
		for i := 0; i < 10; i++ {
			switch x := v.(type) {
			case *ssa.Parameter:
				return paramIndex(fn, x)
			case *ssa.UnOp:
				v = x.X
			case *ssa.FieldAddr:
				v = x.X
			case *ssa.IndexAddr:
				v = x.X
			case *ssa.Field:
				v = x.X
			case *ssa.Slice:
				v = x.X
			case *ssa.Extract:
				v = x.Tuple
			case *ssa.Next:
				v = x.Iter
			case *ssa.Range:
				v = x.X
			default:
				return -1
			}
		}
		return -1
	}
	for _, site := range callsIn(fn) {
		name := c.calleeName(site)
		if name == "utils.ReleaseBuffer" {
			for _, a := range site.Common().Args {
				if i := rootParam(a); i >= 0 {
					out[i] = true
				}
			}
			continue
		}
		if g := site.Common().StaticCallee(); g != nil && inModule(fnPkgPath(g)) && g != fn {
			sub := c.releasesParamBuffers(g, depth+1)
			for ai, a := range site.Common().Args {
				if sub[ai] {
					if i := rootParam(a); i >= 0 {
						out[i] = true
					}
				}
			}
		}
	}
	return out
}

func init() {
	reg := registry["C04"]
	reg.Meta.Rules["C04.9"] = "a structure whose buffers go back to the pool is not kept: in a function that releases the pooled buffers of an object (directly, deferred, or through a Release-style method) that object is not also stored into a field, map or package variable (a cached header whose message buffers are back in the pool is overwritten by the next read of any other object)"
	reg.Rules = append(reg.Rules, func(c *Ctx, r *Result) {
		n := 0
		for _, fn := range c.LibFuncs() {
			pk := shortPkg(fnPkgPath(fn))
			if pk != "hdf5" && pk != "core" && pk != "structures" {
				continue
			}
			for _, site := range callsIn(fn) {
				g := site.Common().StaticCallee()
				if g == nil || !inModule(fnPkgPath(g)) || c.Name(g) == "utils.ReleaseBuffer" {
					continue
				}
				rel := c.releasesParamBuffers(g, 0)
				for ai := range rel {
					if ai >= len(site.Common().Args) {
						continue
					}
					obj := site.Common().Args[ai]
					if !isPointerToStruct(obj.Type()) || obj.Referrers() == nil {
						continue
					}
					n++
					kept := ""
					for _, ref := range *obj.Referrers() {
						switch x := ref.(type) {
						case *ssa.Store:
							if x.Val == obj {
								switch x.Addr.(type) {
								case *ssa.FieldAddr, *ssa.Global, *ssa.IndexAddr:
									kept = c.InstrPos(x)
								}
							}
						case *ssa.MapUpdate:
							if x.Value == obj {
								kept = c.InstrPos(x)
							}
						}
					}
					r.Check(kept == "", "C04.9", c.Name(fn)+"#"+c.Name(g)+"#released-object-not-kept", c.InstrPos(site.(ssa.Instruction)), "the object whose buffers "+c.Name(g)+" returns to the pool is also stored at "+kept)
				}
			}
		}
		if n == 0 {
			r.Hold("C04.9", "module#no-release-of-kept-objects", "", "no function releases the pooled buffers of an object it was handed")
		}
	})
}

// writesGuardedByEOF: every call in fn that can reach a file write lies on the side of a comparison involving the allocator's
// end of file on which the two differ (`if eof != recorded { write }` or `if eof == recorded { return }; write`).
func (c *Ctx) writesGuardedByEOF(fn *ssa.Function) bool {
	n := 0
	for _, site := range callsIn(fn) {
		nm := c.calleeName(site)
		writes := isFileWritePrimitive(nm) && nm != "writer.FileWriter.Flush"
		if !writes {
			for _, g := range c.Callees(site) {
				if libPackage(fnPkgPath(g)) && c.reachesCallee(g, func(x string) bool { return isFileWritePrimitive(x) && x != "writer.FileWriter.Flush" }) {
					writes = true
				}
			}
		}
		if !writes {
			continue
		}
		n++
		ok := false
		for _, b := range fn.Blocks {
			ifi, isIf := b.Instrs[len(b.Instrs)-1].(*ssa.If)
			if !isIf || b.Succs[0] == b.Succs[1] || !condMentionsEOF(c, ifi.Cond, 0) {
				continue
			}
			differ := b.Succs[0]
			if bo, isB := ifi.Cond.(*ssa.BinOp); isB && bo.Op == token.EQL {
				differ = b.Succs[1]
			}
			if edgeDominates(b, differ, site.(ssa.Instruction).Block()) {
				ok = true
			}
		}
		if !ok {
			return false
		}
	}
	return n > 0
}

func init() {
	for _, pr := range [][2]string{{"C01", "C01.11"}, {"C03", "C03.12"}} {
		pr := pr
		reg := registry[pr[0]]
		reg.Meta.Rules[pr[1]] = "the name heap stores names, it does not look them up: LocalHeap.AddString (and the heap's other writers) never locate an existing string by a substring, prefix or suffix search for the new name (a name that is part of an earlier one would be given that one's offset)"
		reg.Rules = append(reg.Rules, func(c *Ctx, r *Result) {
			n := 0
			for _, name := range []string{"structures.LocalHeap.AddString", "structures.LocalHeap.PrepareForModification"} {
				if fn := c.FnOpt(name); fn != nil {
					n++
					c.checkExactMatchOpt(r, pr[1], fn, false)
				}
			}
			if n == 0 {
				r.Undec(pr[1], "structures.LocalHeap#name-storage", "", "local heap writers not found")
			}
		})
	}
}
