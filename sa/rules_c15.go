package main

import (
	"go/token"
	"go/types"
	"strings"

	"golang.org/x/tools/go/ssa"
)

func init() {
	register("C15", PropMeta{
		Title: "The fractal heap returns exactly the bytes stored under each live id",
		Explanation: "Effect analysis of the writable fractal heap: for every operation the set of accounting fields it stores to and the signed symbolic amount of each change (new value minus old value as a linear form) are extracted from SSA and compared with the model's accounting equations; " +
			"failure exits are checked to be unreachable from any content store; the load path's insert cursor must be taken from the header's iterator offset and from nothing that shrinks on delete.",
		DoesNotDecide: "byte equality of stored objects; disjointness of ids over histories; the capacity lost to block prefix and checksum (C15.4 of the design is not armed); dispatch of id-based siblings after growth past one block",
		Rules: map[string]string{
			"C15.1": "an insert/overwrite/delete that returns an error has not stored to heap content or accounting first",
			"C15.2": "each operation changes exactly the accounting fields of the model, by the model's amounts (insert: FreeOffset,ManagedSpaceOffset +n; NumManagedObjects +1; FreeSpace -n; delete: NumManagedObjects -1; FreeSpace +len; overwrite: nothing)",
			"C15.5": "LoadFromFile recovers the insert cursor (FreeOffset, ManagedSpaceOffset) from the header's managed-object iterator offset only",
		},
	}, ruleC15)
	except("C15", "C15.1", "structures.WritableFractalHeap.InsertObject#error-return(structures.WritableFractalHeap.insertViaIndirect)#after-mutation",
		"the only mutation before this exit is the direct->indirect root transition, which creates a 2-entry root with one entry used; the insert that follows allocates the second entry and cannot report 'indirect block full', and the object size was validated before the transition")
	except("C15", "C15.1", "structures.WritableFractalHeap.InsertObject#error-return(structures.WritableFractalHeap.insertViaDirect)#after-mutation",
		"insertViaDirect is only reached when RootIndirectBlock is nil, i.e. on the path where no transition happened (needsTransition false or transition failed and returned)")
}

const heapPfx = "structures.Writable"

func ruleC15(c *Ctx, r *Result) {
	fn := func(n string) *ssa.Function { return c.Fn(r, "structures.WritableFractalHeap."+n) }
	H := "structures.WritableHeapHeader."
	B := "structures.WritableDirectBlock."
	// C15.2 accounting equations
	c.checkEffects(r, "C15.2", fn("insertViaDirect"), effSpec{
		B + "FreeOffset": "+x@n", H + "ManagedSpaceOffset": "+x@n", H + "NumManagedObjects": "+1", H + "FreeSpace": "-x@n", B + "Objects": "any",
	}, heapPfx)
	c.checkEffects(r, "C15.2", fn("insertViaIndirect"), effSpec{
		B + "FreeOffset": "+x@n,=", H + "ManagedSpaceOffset": "+x@n", H + "NumManagedObjects": "+1", H + "FreeSpace": "+x@m,-x@n", B + "Objects": "any",
		H + "ManagedSpaceSize": "+x@m", H + "AllocatedManagedSpace": "+x@m",
		B + "BlockOffset": "any", B + "ChecksumEnabled": "any", B + "HeapHeaderAddress": "any", B + "Size": "any", B + "Version": "any",
		"structures.WritableFractalHeap.DirectBlocks": "any",
	}, heapPfx)
	c.checkEffects(r, "C15.2", fn("DeleteObject"), effSpec{
		H + "NumManagedObjects": "-1", H + "FreeSpace": "+x@len", B + "Objects": "any",
	}, heapPfx)
	c.checkEffects(r, "C15.2", fn("OverwriteObject"), effSpec{B + "Objects": "opt"}, heapPfx)
	c.checkEffects(r, "C15.2", fn("GetObject"), effSpec{}, heapPfx)
	c.checkEffects(r, "C15.2", fn("InsertObject"), effSpec{}, heapPfx)
	r.Floor("C15.2", 12)

	// C15.1 failure exits precede every change
	mut := func(name string) bool {
		switch name {
		case "structures.WritableFractalHeap.insertViaDirect", "structures.WritableFractalHeap.insertViaIndirect", "structures.WritableFractalHeap.transitionToIndirectRoot":
			return true
		}
		return false
	}
	for _, n := range []string{"InsertObject", "insertViaDirect", "insertViaIndirect", "OverwriteObject", "DeleteObject", "transitionToIndirectRoot"} {
		c.checkNoErrorAfterStore(r, "C15.1", fn(n), mut, false, heapPfx)
	}
	r.Floor("C15.1", 10)

	ruleHeapCursor(c, r, "C15.5")
	r.Floor("C15.5", 2)
}

// ruleHeapCursor (shared by C02, C05, C10, C15): what LoadFromFile restores as the heap's insert cursor comes from the
// header's managed-object iterator offset alone, and only insert paths ever move the persistent cursor field.
func ruleHeapCursor(c *Ctx, r *Result, rule string) {
	fn := func(n string) *ssa.Function { return c.Fn(r, "structures.WritableFractalHeap."+n) }
	H := "structures.WritableHeapHeader."
	B := "structures.WritableDirectBlock."
	// C15.5 cursor recovery
	if lf := fn("LoadFromFile"); lf != nil {
		const iter = "structures.FractalHeapHeader.ManagedObjIterOffset"
		found := map[string]bool{}
		for _, fs := range c.DirectFieldStores(lf) {
			if fs.Key != B+"FreeOffset" && fs.Key != H+"ManagedSpaceOffset" {
				continue
			}
			found[fs.Key] = true
			reads := fieldsReadBy(fs.Val)
			ok := reads[iter]
			bad := ""
			for k := range reads {
				if k != iter {
					ok = false
					bad += " " + k
				}
			}
			if ok {
				r.Hold(rule, c.Name(lf)+"#"+fs.Key, c.InstrPos(fs.In), "taken from "+iter)
			} else {
				r.Viol(rule, c.Name(lf)+"#"+fs.Key+"#cursor-source", c.InstrPos(fs.In), "insert cursor must come from the header's managed-object iterator offset alone; value also/only depends on:"+bad)
			}
		}
		for _, k := range []string{B + "FreeOffset", H + "ManagedSpaceOffset"} {
			if !found[k] {
				r.Viol(rule, c.Name(lf)+"#"+k+"#not-restored", c.Pos(lf.Pos()), "LoadFromFile never sets this cursor field")
			}
		}
	}
	// who may move the persistent cursor
	for _, f := range c.LibFuncs() {
		for _, fs := range c.DirectFieldStores(f) {
			if fs.Fn != f || fs.Key != H+"ManagedSpaceOffset" {
				continue
			}
			switch c.Name(f) {
			case "structures.WritableFractalHeap.insertViaDirect", "structures.WritableFractalHeap.insertViaIndirect",
				"structures.WritableFractalHeap.LoadFromFile", "structures.NewWritableFractalHeap":
				r.Hold(rule, c.Name(f)+"#moves-cursor", c.InstrPos(fs.In), "insert / load / constructor")
			default:
				r.ViolMissing(c, f, rule, c.Name(f)+"#"+fs.Key+"#cursor-moved-outside-insert", c.InstrPos(fs.In), "the header's insert cursor is what LoadFromFile turns into the next insert position; only inserts may advance it (space freed by delete is never reused)")
			}
		}
	}
}

func init() {
	reg := registry["C15"]
	reg.Meta.Rules["C15.6"] = "one object per heap block: a block registered in DirectBlocks is either the heap's own DirectBlock (the same pointer) or a newly built block with its own offset - never a field-by-field copy of a block that stays referenced elsewhere (overwrite/delete act on fh.DirectBlock, get/insert on the map: two objects for one block diverge)"
	reg.Rules = append(reg.Rules, func(c *Ctx, r *Result) {
		n := 0
		for _, fn := range c.LibFuncs() {
			if shortPkg(fnPkgPath(fn)) != "structures" {
				continue
			}
			instrs(fn, func(in ssa.Instruction) {
				mu, ok := in.(*ssa.MapUpdate)
				if !ok {
					return
				}
				k, _ := fieldLoadKey(mu.Map)
				if k != "structures.WritableFractalHeap.DirectBlocks" {
					return
				}
				n++
				cons := c.Name(fn) + "#registered-block-is-the-block"
				// (a) the heap's own block
				if kk, _ := fieldLoadKey(mu.Value); kk == "structures.WritableFractalHeap.DirectBlock" {
					r.Hold("C15.6", cons, c.InstrPos(mu), "the heap's DirectBlock itself is registered")
					return
				}
				// (b) a new object: its BlockOffset must not be copied from another block's BlockOffset
				al, isAl := mu.Value.(*ssa.Alloc)
				if !isAl {
					r.Undec("C15.6", cons, c.InstrPos(mu), "registered value is neither fh.DirectBlock nor a block built here")
					return
				}
				copied := ""
				for _, ref := range *al.Referrers() {
					fa, ok := ref.(*ssa.FieldAddr)
					if !ok {
						continue
					}
					f, _ := fieldOfAddr(fa)
					if f == nil || f.Name() != "BlockOffset" {
						continue
					}
					for _, r2 := range *fa.Referrers() {
						st, ok := r2.(*ssa.Store)
						if !ok || st.Addr != ssa.Value(fa) {
							continue
						}
						if kk, _ := fieldLoadKey(st.Val); kk == "structures.WritableDirectBlock.BlockOffset" {
							copied = c.InstrPos(st)
						}
					}
				}
				r.Check(copied == "", "C15.6", cons, c.InstrPos(mu), "the registered block is a new object whose BlockOffset is copied from an existing block ("+copied+"): a second object for the same heap block")
			})
		}
		if n == 0 {
			r.Undec("C15.6", "structures#registered-block-is-the-block", "", "no update of WritableFractalHeap.DirectBlocks found")
		}
	})
}

func init() {
	reg := registry["C15"]
	reg.Meta.Rules["C15.7"] = "a heap ID can address the object it names: every path to the encoding of a heap ID for a new object passes a test that the offset fits the HeapOffsetSize bytes of the ID, and the failing side of that test does not reach the encoding with the same offset"
	reg.Rules = append(reg.Rules, func(c *Ctx, r *Result) {
		n := 0
		for _, name := range []string{"structures.WritableFractalHeap.insertViaDirect", "structures.WritableFractalHeap.insertViaIndirect"} {
			fn := c.Fn(r, name)
			if fn == nil {
				continue
			}
			for _, site := range callsIn(fn) {
				if c.calleeName(site) != "structures.WritableFractalHeap.encodeHeapID" {
					continue
				}
				n++
				in := site.(ssa.Instruction)
				// a width test: a call to a bool helper that compares its argument with 1 << (8*HeapOffsetSize), or such a comparison inline
				isWidthTest := func(x ssa.Instruction) bool {
					call, ok := x.(*ssa.Call)
					if !ok {
						return false
					}
					g := call.Call.StaticCallee()
					if g == nil || g.Blocks == nil || !inModule(fnPkgPath(g)) || g.Signature.Results().Len() != 1 {
						return false
					}
					if b, isB := g.Signature.Results().At(0).Type().Underlying().(*types.Basic); !isB || b.Kind() != types.Bool {
						return false
					}
					reads := false
					instrs(g, func(y ssa.Instruction) {
						if u, ok := y.(*ssa.UnOp); ok && u.Op == token.MUL {
							if k, _ := fieldLoadKey(u); strings.HasSuffix(k, ".HeapOffsetSize") {
								reads = true
							}
						}
					})
					return reads
				}
				ok := mustPrecede(in, isWidthTest)
				r.Check(ok, "C15.7", name+"#offset-fits-heap-id", c.InstrPos(in), "every path to encodeHeapID passes a test of the offset against the width of the heap ID's offset field (HeapOffsetSize bytes)")
			}
		}
		if n < 2 {
			r.Errorf("C15.7: only %d heap ID encodings found in the insert paths", n)
		}
		heapWidthTestRule(c, r, "C15.7")
	})
}

func init() {
	reg := registry["C15"]
	reg.Meta.Rules["C15.8"] = "a heap ID can hold the length of every object the heap accepts: where a heap header is built, the width of the ID's length field is computed (by the module's width function) from a value that is at least the MaxManagedObjectSize stored next to it, and does not depend on the block size parameter (InsertObject admits objects up to MaxManagedObjectSize whatever the block size)"
	reg.Rules = append(reg.Rules, func(c *Ctx, r *Result) {
		n := 0
		for _, fn := range c.LibFuncs() {
			if shortPkg(fnPkgPath(fn)) != "structures" {
				continue
			}
			var lenStore, maxStore *FieldStore
			for _, fs := range c.DirectFieldStores(fn) {
				fs := fs
				if fs.Fn != fn {
					continue
				}
				switch fs.Key {
				case "structures.WritableHeapHeader.HeapLengthSize":
					lenStore = &fs
				case "structures.WritableHeapHeader.MaxManagedObjectSize":
					maxStore = &fs
				}
			}
			if lenStore == nil || maxStore == nil || lenStore.Val == nil || maxStore.Val == nil {
				continue
			}
			cons := c.Name(fn) + "#length-field-wide-enough"
			v := stripConv(lenStore.Val)
			if k, _ := fieldLoadKey(v); k != "" {
				n++
				r.Hold("C15.8", cons, c.InstrPos(lenStore.In), "copied from the header read from the file")
				continue
			}
			n++
			if len(dataParams(v)) > 0 {
				r.Viol("C15.8", cons, c.InstrPos(lenStore.In), "the width of the length field depends on a parameter of "+c.Name(fn)+" while the admitted object size does not: an object of MaxManagedObjectSize bytes may not fit the field")
				continue
			}
			call, ok := v.(*ssa.Call)
			if !ok || call.Call.StaticCallee() == nil || len(call.Call.Args) != 1 {
				r.Undec("C15.8", cons, c.InstrPos(lenStore.In), "width not computed by a single call of a width function")
				continue
			}
			a, ok1 := c.constEval(call.Call.Args[0])
			m, ok2 := c.constEval(maxStore.Val)
			if !ok1 || !ok2 {
				r.Undec("C15.8", cons, c.InstrPos(lenStore.In), "argument of the width function or MaxManagedObjectSize is not a constant")
				continue
			}
			r.Check(a >= m, "C15.8", cons, c.InstrPos(lenStore.In), "length width = "+call.Call.StaticCallee().Name()+"("+itoa(int(a))+"), MaxManagedObjectSize = "+itoa(int(m)))
		}
		if n == 0 {
			r.Undec("C15.8", "structures#length-field-wide-enough", "", "no function builds a heap header with both fields")
		}
	})
}

// heapWidthTestRule: the width test of the heap ID's offset field: a value fits N bits iff it is < 1<<N (iff not >= 1<<N);
// <= and > against the power of two admit the offset 1<<N, which is stored as 0.
func heapWidthTestRule(c *Ctx, r *Result, rule string) {
	// the width test itself: a value fits N bits iff it is < 1<<N (iff not >= 1<<N); <= and > against the power of two
	// admit the offset 1<<N, which is stored as 0
	k := 0
	for _, g := range c.LibFuncs() {
		if shortPkg(fnPkgPath(g)) != "structures" || g.Signature.Results().Len() != 1 {
			continue
		}
		if b, isB := g.Signature.Results().At(0).Type().Underlying().(*types.Basic); !isB || b.Kind() != types.Bool {
			continue
		}
		reads := false
		instrs(g, func(y ssa.Instruction) {
			if u, ok := y.(*ssa.UnOp); ok && u.Op == token.MUL {
				if key, _ := fieldLoadKey(u); strings.HasSuffix(key, ".HeapOffsetSize") {
					reads = true
				}
			}
		})
		if !reads {
			continue
		}
		instrs(g, func(y ssa.Instruction) {
			bo, ok := y.(*ssa.BinOp)
			if !ok {
				return
			}
			isPow := func(v ssa.Value) bool {
				sh, ok := stripConv(v).(*ssa.BinOp)
				if !ok || sh.Op != token.SHL {
					return false
				}
				one, ok := constInt(sh.X)
				return ok && one == 1
			}
			op := bo.Op
			switch {
			case isPow(bo.Y):
			case isPow(bo.X):
				switch op {
				case token.LSS:
					op = token.GTR
				case token.GTR:
					op = token.LSS
				case token.LEQ:
					op = token.GEQ
				case token.GEQ:
					op = token.LEQ
				}
			default:
				return
			}
			if op != token.LSS && op != token.GTR && op != token.LEQ && op != token.GEQ {
				return
			}
			k++
			r.Check(op == token.LSS || op == token.GEQ, rule, c.Name(g)+"#fits-means-below-the-power-of-two", c.InstrPos(bo), "an offset fits N bits iff offset < 1<<N; a test with <= or > admits 1<<N itself, which the ID stores as 0 (the ID of the first object)")
		})
	}
	if k == 0 {
		r.Undec(rule, "structures#fits-means-below-the-power-of-two", "", "no comparison against 1<<bits found in a width test")
	}
}
