package main

import "strconv"

func fmtFloat(f float64) string { return strconv.FormatFloat(f, 'f', 4, 64) }
