package main

import (
	"go/token"
	"go/types"
	"sort"
	"strings"

	"golang.org/x/tools/go/ssa"
)

// E-ERR: what happens to the error result of a call.
const (
	ErrPropagated = "propagated" // non-nil edge always ends in a return of a non-nil error (or the value itself is returned)
	ErrDiscarded  = "discarded"  // result never looked at (`_ =`, unused)
	ErrSwallowed  = "swallowed"  // non-nil edge can reach a success return / normal flow
	ErrConverted  = "converted"  // function has no error result: error turned into a value
	ErrEOFTol     = "eof-tolerated"
	ErrEscapes    = "escapes" // stored / sent / captured: not decided
	ErrDeferred   = "deferred-discard"
	ErrPanics     = "panics" // error edge ends in panic
)

type ErrSite struct {
	Caller  *ssa.Function
	Call    ssa.CallInstruction
	Callee  string
	Kind    string
	Detail  string
	EOFTest []*ssa.If // If instructions that tolerate io.EOF for this error (for C17.3)
	ErrVal  ssa.Value
}

// errValueOf returns the error-typed value(s) produced by a call, and whether the call returns an error at all.
func errValuesOf(call *ssa.Call) (vals []ssa.Value, has bool) {
	sig := call.Call.Signature()
	idx := errResultIndex(sig)
	if idx < 0 {
		return nil, false
	}
	if sig.Results().Len() == 1 {
		return []ssa.Value{call}, true
	}
	for _, ref := range *call.Referrers() {
		if ex, ok := ref.(*ssa.Extract); ok && ex.Index == idx {
			vals = append(vals, ex)
		}
	}
	return vals, true
}

func isGlobalNamed(v ssa.Value, pkg, name string) bool {
	u, ok := isLoad(v)
	if !ok {
		return false
	}
	g, ok := u.X.(*ssa.Global)
	if !ok {
		return false
	}
	return g.Pkg != nil && g.Pkg.Pkg.Path() == pkg && g.Name() == name
}

type errAnalysis struct {
	c       *Ctx
	fn      *ssa.Function
	aliases map[ssa.Value]bool // values that are the error (phi/load copies)
	wrapped map[ssa.Value]bool // error values derived from it by a call (non-nil when it is non-nil)
	escapes bool
}

func (a *errAnalysis) addAlias(v ssa.Value) {
	if a.aliases[v] {
		return
	}
	a.aliases[v] = true
	refs := v.Referrers()
	if refs == nil {
		return
	}
	for _, ref := range *refs {
		switch x := ref.(type) {
		case *ssa.Phi:
			a.addAlias(x)
		case *ssa.ChangeInterface:
			a.addAlias(x)
		case *ssa.ChangeType:
			a.addAlias(x)
		case *ssa.MakeInterface:
			a.addAlias(x)
		case *ssa.Store:
			if x.Val != v {
				continue
			}
			switch addr := x.Addr.(type) {
			case *ssa.Alloc:
				// local variable spilled to memory (named result with defer, captured variable)
				for _, r2 := range *addr.Referrers() {
					if ld, ok := r2.(*ssa.UnOp); ok && ld.Op == token.MUL {
						a.addAlias(ld)
					}
					if mc, ok := r2.(*ssa.MakeClosure); ok {
						_ = mc
						// captured by closure: loads inside closure are not followed; still decided by local uses
					}
				}
			case *ssa.FreeVar:
				// assignment to a captured variable from inside a closure: the enclosing function sees it
				a.escapes = true
			case *ssa.IndexAddr:
				// variadic packing: the value is stored into the argument array of a call (fmt.Errorf("%w", err))
				if arr, ok := addr.X.(*ssa.Alloc); ok {
					found := false
					for _, r2 := range *arr.Referrers() {
						if sl, ok := r2.(*ssa.Slice); ok {
							for _, r3 := range *sl.Referrers() {
								if call, ok := r3.(*ssa.Call); ok {
									a.noteCallUse(call, sl)
									found = true
								}
							}
						}
					}
					if !found {
						a.escapes = true
					}
				} else {
					a.escapes = true
				}
			default:
				a.escapes = true
			}
		case *ssa.Call:
			a.noteCallUse(x, v)
		case *ssa.MapUpdate, *ssa.Send:
			a.escapes = true
		}
	}
}

func (a *errAnalysis) noteCallUse(call *ssa.Call, v ssa.Value) {
	if call.Call.IsInvoke() && call.Call.Value == v {
		return // err.Error(), err.Unwrap()
	}
	f := call.Call.StaticCallee()
	if f != nil {
		switch f.String() {
		case "errors.Is", "errors.As":
			return
		}
	}
	// error passed to a function: if that function returns an error, the result is a wrap
	if call.Type() != nil && isErrorType(call.Type()) {
		if !a.wrapped[call] {
			a.wrapped[call] = true
			a.followWrapped(call)
		}
		return
	}
	if tup, ok := call.Type().(*types.Tuple); ok {
		for i := 0; i < tup.Len(); i++ {
			if isErrorType(tup.At(i).Type()) {
				for _, r := range *call.Referrers() {
					if ex, ok := r.(*ssa.Extract); ok && ex.Index == i {
						a.wrapped[ex] = true
						a.followWrapped(ex)
					}
				}
			}
		}
	}
}

func (a *errAnalysis) followWrapped(v ssa.Value) {
	for _, ref := range *v.Referrers() {
		switch x := ref.(type) {
		case *ssa.Phi:
			if !a.wrapped[x] {
				a.wrapped[x] = true
				a.followWrapped(x)
			}
		case *ssa.Call:
			if isErrorType(x.Type()) && !a.wrapped[x] {
				for _, arg := range x.Call.Args {
					if stripIface(arg) == v || arg == v {
						a.wrapped[x] = true
						a.followWrapped(x)
					}
				}
			}
		case *ssa.MakeInterface:
			if !a.wrapped[x] {
				a.wrapped[x] = true
				a.followWrapped(x)
			}
		case *ssa.Store:
			if al, ok := x.Addr.(*ssa.Alloc); ok && x.Val == v {
				for _, r2 := range *al.Referrers() {
					if ld, ok := r2.(*ssa.UnOp); ok && ld.Op == token.MUL && !a.wrapped[ld] {
						a.wrapped[ld] = true
						a.followWrapped(ld)
					}
				}
			}
		}
	}
}

func (a *errAnalysis) derived(v ssa.Value) bool { return a.aliases[v] || a.wrapped[v] }

// nilTestOf: is cond a nil test of an alias? returns (isTest, trueMeansNonNil)
func (a *errAnalysis) nilTest(cond ssa.Value) (bool, bool) {
	b, ok := cond.(*ssa.BinOp)
	if !ok || (b.Op != token.EQL && b.Op != token.NEQ) {
		return false, false
	}
	var other ssa.Value
	if a.aliases[b.X] {
		other = b.Y
	} else if a.aliases[b.Y] {
		other = b.X
	} else {
		return false, false
	}
	if !isNilConst(other) {
		return false, false
	}
	return true, b.Op == token.NEQ
}

// sentinelTest: cond is errors.Is(e, X) or e == X (X not nil). returns (isTest, isEOF, trueMeansMatch)
func (a *errAnalysis) sentinelTest(cond ssa.Value) (bool, bool, bool) {
	switch x := cond.(type) {
	case *ssa.Call:
		f := x.Call.StaticCallee()
		if f != nil && (f.String() == "errors.Is" || f.String() == "errors.As") && len(x.Call.Args) == 2 && a.aliases[x.Call.Args[0]] {
			tgt := x.Call.Args[1]
			return true, isGlobalNamed(tgt, "io", "EOF") || isGlobalNamed(tgt, "io", "ErrUnexpectedEOF"), true
		}
	case *ssa.BinOp:
		if x.Op == token.EQL || x.Op == token.NEQ {
			var other ssa.Value
			if a.aliases[x.X] {
				other = x.Y
			} else if a.aliases[x.Y] {
				other = x.X
			}
			if other != nil && !isNilConst(other) {
				return true, isGlobalNamed(other, "io", "EOF") || isGlobalNamed(other, "io", "ErrUnexpectedEOF"), x.Op == token.EQL
			}
		}
	case *ssa.UnOp:
		if x.Op == token.NOT {
			ok, eof, pol := a.sentinelTest(x.X)
			return ok, eof, !pol
		}
	}
	return false, false, false
}

// ClassifyErrCall classifies one call returning an error.
func (c *Ctx) ClassifyErrCall(call *ssa.Call) *ErrSite {
	fn := call.Parent()
	site := &ErrSite{Caller: fn, Call: call, Callee: c.calleeName(call)}
	vals, has := errValuesOf(call)
	if !has {
		return nil
	}
	if len(vals) == 0 {
		site.Kind = ErrDiscarded
		site.Detail = "error result is never extracted (`_`)"
		return site
	}
	a := &errAnalysis{c: c, fn: fn, aliases: map[ssa.Value]bool{}, wrapped: map[ssa.Value]bool{}}
	for _, v := range vals {
		a.addAlias(v)
	}
	site.ErrVal = vals[0]
	errIdx := errResultIndex(fn.Signature)

	// Direct propagation: some Return has a derived value as its error operand.
	returned := false
	for _, r := range returnsOf(fn) {
		for _, op := range r.Results {
			if a.derived(op) {
				returned = true
			}
		}
	}
	// Nil tests
	type test struct {
		in      *ssa.If
		nonNilS *ssa.BasicBlock
	}
	var tests []test
	usedOtherwise := false
	for v := range a.aliases {
		if v.Referrers() == nil {
			continue
		}
		for _, ref := range *v.Referrers() {
			switch x := ref.(type) {
			case *ssa.BinOp:
				if ok, pol := a.nilTest(x); ok {
					for _, r2 := range *x.Referrers() {
						if ifi, ok := r2.(*ssa.If); ok {
							s := ifi.Block().Succs[0]
							if !pol {
								s = ifi.Block().Succs[1]
							}
							tests = append(tests, test{ifi, s})
						} else if _, isDbg := r2.(*ssa.DebugRef); !isDbg {
							// `ok := err == nil` stored in a variable / phi (short-circuit && / ||): handled below via phi conditions
							usedOtherwise = true
						}
					}
				} else if ok, _, _ := a.sentinelTest(x); ok {
					usedOtherwise = true
				}
			case *ssa.Call:
				if ok, _, _ := a.sentinelTest(x); ok {
					usedOtherwise = true
				}
			case *ssa.Return, *ssa.Phi, *ssa.Store, *ssa.DebugRef, *ssa.ChangeInterface, *ssa.MakeInterface:
			default:
				usedOtherwise = true
			}
		}
	}
	if len(tests) == 0 {
		switch {
		case returned:
			site.Kind = ErrPropagated
			site.Detail = "returned to the caller"
		case a.escapes:
			site.Kind = ErrEscapes
		case usedOtherwise:
			// compared against a sentinel only, or passed on: treat sentinel-only comparisons as swallow candidates
			site.Kind = ErrSwallowed
			site.Detail = "error is inspected but no nil test guards the normal path"
		default:
			site.Kind = ErrDiscarded
			site.Detail = "error value is assigned and never used"
		}
		return site
	}
	worst := ErrPropagated
	detail := ""
	rank := map[string]int{ErrPropagated: 0, ErrPanics: 1, ErrEOFTol: 2, ErrConverted: 3, ErrSwallowed: 4}
	for _, t := range tests {
		kind, d, eofIfs := a.exploreErrorEdge(t.in, t.nonNilS, errIdx)
		site.EOFTest = append(site.EOFTest, eofIfs...)
		if rank[kind] > rank[worst] {
			worst, detail = kind, d
		}
	}
	if a.escapes && worst == ErrConverted {
		worst, detail = ErrEscapes, "error is stored for later retrieval"
	}
	// the body of a range-over-func loop is a synthetic yield function: `return err` inside the loop stores the error in the
	// enclosing function's results and returns false from the yield; the enclosing return is not followed from here
	if worst == ErrConverted {
		if fn := call.Parent(); fn != nil && fn.Synthetic == "range-over-func yield" {
			worst, detail = ErrEscapes, "error leaves a range-over-func loop body through the enclosing function's results"
		}
	}
	site.Kind, site.Detail = worst, detail
	return site
}

// exploreErrorEdge walks forward from the non-nil successor. Branches taken when the error matches a
// sentinel (errors.Is / ==) are pruned and recorded; the walk stops at returns and panics. The walk is
// path-sensitive in two respects: phi operands of a return are resolved along the edge actually taken,
// and nil tests on OTHER error values met on the way are remembered ("first error wins" idiom:
// `if e2 != nil && err == nil { err = wrap(e2) }; return err` returns a non-nil error on both arms).
func (a *errAnalysis) exploreErrorEdge(ifi *ssa.If, start *ssa.BasicBlock, errIdx int) (string, string, []*ssa.If) {
	type state struct {
		b, pred *ssa.BasicBlock
		facts   string
	}
	factKey := func(m map[ssa.Value]bool) string {
		var ks []string
		for k := range m {
			ks = append(ks, k.Name())
		}
		sort.Strings(ks)
		return strings.Join(ks, ",")
	}
	seen := map[state]bool{}
	var eofIfs []*ssa.If
	eofTolerated := false
	kind := ErrPropagated
	detail := ""
	bad := func(k, d string) {
		if kind == ErrPropagated || (kind == ErrConverted && k == ErrSwallowed) {
			kind, detail = k, d
		}
	}
	// resolve v to the value it has when block b was entered from pred (phis of b only)
	resolve := func(v ssa.Value, b, pred *ssa.BasicBlock) ssa.Value {
		for i := 0; i < 4; i++ {
			phi, ok := v.(*ssa.Phi)
			if !ok || phi.Block() != b || pred == nil {
				return v
			}
			idx := -1
			for k, p := range b.Preds {
				if p == pred {
					idx = k
				}
			}
			if idx < 0 {
				return v
			}
			v = phi.Edges[idx]
		}
		return v
	}
	var walk func(b, pred *ssa.BasicBlock, nonNil map[ssa.Value]bool, depth int)
	walk = func(b, pred *ssa.BasicBlock, nonNil map[ssa.Value]bool, depth int) {
		st := state{b, pred, factKey(nonNil)}
		if seen[st] || depth > 64 {
			return
		}
		seen[st] = true
		if b == ifi.Block() {
			bad(ErrSwallowed, "error edge loops back (continue) to "+a.c.InstrPos(ifi))
			return
		}
		last := b.Instrs[len(b.Instrs)-1]
		switch t := last.(type) {
		case *ssa.Return:
			if errIdx < 0 {
				bad(ErrConverted, "function has no error result; error edge returns a value at "+a.c.InstrPos(t))
				return
			}
			op := resolve(retOperand(t, errIdx), b, pred)
			if a.derived(op) || nonNil[op] {
				return
			}
			if !mayBeNil(op, map[ssa.Value]bool{}) {
				return // fresh non-nil error
			}
			if phi, ok := op.(*ssa.Phi); ok {
				// a phi of another block: fine if every incoming value is derived / known non-nil / fresh
				all := true
				for _, e := range phi.Edges {
					if !(a.derived(e) || nonNil[e] || !mayBeNil(e, map[ssa.Value]bool{})) {
						all = false
					}
				}
				if all {
					return
				}
			}
			if ld, ok := isLoad(op); ok {
				if al, ok := ld.X.(*ssa.Alloc); ok {
					for _, r := range *al.Referrers() {
						if stt, ok := r.(*ssa.Store); ok && (a.derived(stt.Val) || !mayBeNil(stt.Val, map[ssa.Value]bool{})) {
							for s2 := range seen {
								if s2.b == stt.Block() {
									return
								}
							}
						}
					}
				}
			}
			bad(ErrSwallowed, "error edge reaches a return with nil/unrelated error at "+a.c.InstrPos(t))
			return
		case *ssa.Panic:
			if kind == ErrPropagated {
				kind, detail = ErrPanics, "error edge panics at "+a.c.InstrPos(t)
			}
			return
		case *ssa.If:
			if ok, isEOF, pol := a.sentinelTest(t.Cond); ok {
				match, other := b.Succs[0], b.Succs[1]
				if !pol {
					match, other = other, match
				}
				if isEOF {
					eofTolerated = true
					eofIfs = append(eofIfs, t)
				}
				_ = match
				walk(other, b, nonNil, depth+1)
				return
			}
			if ok, pol := a.nilTest(t.Cond); ok {
				if pol {
					walk(b.Succs[0], b, nonNil, depth+1)
				} else {
					walk(b.Succs[1], b, nonNil, depth+1)
				}
				return
			}
			// nil test on some other error value: remember it on the non-nil arm
			if bo, ok := t.Cond.(*ssa.BinOp); ok && (bo.Op == token.EQL || bo.Op == token.NEQ) {
				var other ssa.Value
				if isNilConst(bo.Y) && isErrorType(bo.X.Type()) {
					other = bo.X
				} else if isNilConst(bo.X) && isErrorType(bo.Y.Type()) {
					other = bo.Y
				}
				if other != nil {
					other = resolve(other, b, pred)
					if isNilConst(other) {
						// comparing the nil constant with nil: only the nil arm is feasible
						if bo.Op == token.EQL {
							walk(b.Succs[0], b, nonNil, depth+1)
						} else {
							walk(b.Succs[1], b, nonNil, depth+1)
						}
						return
					}
					nn := map[ssa.Value]bool{other: true}
					for k := range nonNil {
						nn[k] = true
					}
					nonNilSucc, nilSucc := b.Succs[0], b.Succs[1]
					if bo.Op == token.EQL {
						nonNilSucc, nilSucc = nilSucc, nonNilSucc
					}
					walk(nonNilSucc, b, nn, depth+1)
					walk(nilSucc, b, nonNil, depth+1)
					return
				}
			}
		}
		for _, s := range b.Succs {
			walk(s, b, nonNil, depth+1)
		}
	}
	walk(start, ifi.Block(), map[ssa.Value]bool{}, 0)
	if kind == ErrPropagated && eofTolerated {
		return ErrEOFTol, "io.EOF tolerated", eofIfs
	}
	return kind, detail, eofIfs
}

// ErrSites classifies every error-returning call (ssa.Call) and deferred call in the given functions.
func (c *Ctx) ErrSites(fns []*ssa.Function) []*ErrSite {
	var out []*ErrSite
	for _, fn := range fns {
		var calls []ssa.Instruction
		instrs(fn, func(in ssa.Instruction) {
			switch in.(type) {
			case *ssa.Call, *ssa.Defer:
				calls = append(calls, in)
			}
		})
		sort.SliceStable(calls, func(i, j int) bool { return posLess(calls[i], calls[j]) })
		for _, in := range calls {
			switch x := in.(type) {
			case *ssa.Call:
				if s := c.ClassifyErrCall(x); s != nil {
					out = append(out, s)
				}
			case *ssa.Defer:
				if errResultIndex(x.Call.Signature()) >= 0 {
					out = append(out, &ErrSite{Caller: fn, Call: x, Callee: c.calleeName(x), Kind: ErrDeferred})
				}
			}
		}
	}
	return out
}
