package main

import (
	"go/token"
	"go/types"
	"strings"

	"golang.org/x/tools/go/ssa"
)

func init() {
	register("C17", PropMeta{
		Title: "Truncated files and failing I/O produce errors, never different answers",
		Explanation: "Error-flow analysis (E-ERR) over every call in the I/O-carrying packages (hdf5, core, structures, writer, utils) whose callee returns an error: " +
			"the error value is followed through phis, spilled variables and wrapping calls; its non-nil edge is walked forward and must end only in returns of a non-nil error. " +
			"Discarded results, error edges that rejoin the normal path (continue / break / fall-through / return nil) and errors converted into plain values are reported per call site.",
		DoesNotDecide: "that the value returned on the intact file is right; each truncation length individually (the rule covers every call site instead); errors lost through struct fields or channels (counted as escapes)",
		Rules: map[string]string{
			"C17.1": "every error result of a call is looked at: not discarded with `_`, not assigned and left unused (cleanup Close on an error path or in a deferred cleanup closure excepted)",
			"C17.2": "the non-nil edge of every error test ends in a return of a non-nil error: never continue/break/fall-through/return nil, never a conversion into a plain value",
			"C17.3": "where io.EOF is tolerated after a ReadAt, the byte count is compared against the length the code goes on to use (see C17.3 instances)",
		},
	}, ruleC17ErrFlow)

	// ---- frozen exceptions, each confirmed by reading ----
	const p = "C17"
	except(p, "C17.2", "core.FilterPipelineMessage.ApplyFilters#core.applyFilter#swallowed", "format rule: a filter whose 'optional' flag bit is set may fail and is skipped; the skip is guarded by that flag (checked by C08.5)")
	except(p, "C17.2", "core.ParseDatatypeMessage#core.calculateCompoundPropsLen#swallowed", "pure in-memory length computation on bytes already read; the fallback takes the rest of the message and the member parser reports malformed input; no I/O result involved")
	except(p, "C17.2", "hdf5.upsertAttributeMessage#core.AddMessageToObjectHeader#swallowed", "the 'object header full' error is handled by migrating to dense storage, whose own error is returned; every other error is wrapped and returned")
	except(p, "C17.2", "hdf5.FileWriter.resolveObjectAddress#structures.LocalHeap.GetString#swallowed", "an unreadable name cannot match; the loop falls through to the 'object not found' error, so the caller still gets an error")
	except(p, "C17.2", "hdf5.loadObject#structures.LocalHeap.GetString#swallowed", "redirect detection only; on failure the node is loaded as a real group, which reads the same name through the same heap and returns that error")
	except(p, "C17.2", "hdf5.loadTraditionalGroup#core.ReadObjectHeader#swallowed", "heap stays nil and the function returns 'could not find local heap'")
	except(p, "C17.2", "core.ParseAttributesFromMessages#core.ParseAttributeInfoMessage#swallowed", "in-memory parse of an already-read message, no I/O result involved; the silent loss of dense attributes on an unsupported encoding is reported under C06.3")
	except(p, "C17.2", "core.ParseAttributesFromMessages#core.ParseAttributeMessage#swallowed", "in-memory parse of an already-read message, no I/O result involved; the silent loss of an attribute with an unsupported encoding is reported under C06.3")
	except(p, "C17.2", "core.findContinuations#core.parseContinuationMessage#swallowed", "in-memory parse of an already-read message, no I/O result involved; reported under C06.3")
	except(p, "C17.2", "hdf5.readSignature#(io.ReaderAt).ReadAt#converted", "the empty signature matches no known signature: loadGroup/loadObject fall to ReadObjectHeader, which repeats the read and returns its error; loadChildren returns 'unknown B-tree signature'")
	except(p, "C17.2", "hdf5.isHDF5File#(utils.ReaderAt).ReadAt#converted", "false makes Open return 'not an HDF5 file'")
	except(p, "C17.1", "hdf5.CreateForWrite#dynamic#discarded", "not an I/O result: a FileWriterOption applied to a temporary in-memory writer to collect configuration (plumbing is checked by C19.2)")
	except(p, "C17.1", "hdf5.FileWriter.Close#hdf5.FileWriter.StopIncrementalRebalancing#discarded", "not an I/O result: the callee is a constant `return nil`")
	except(p, "C17.1", "hdf5.FileWriter.CreateHardLink#hdf5.writeObjectHeaderWithRefCount#discarded", "best-effort rollback write on a path that already returns the primary error (every return after it is a non-nil error)")
}

// callees whose error result cannot be an I/O outcome (in-memory writers, error constructors)
func infallibleCallee(name string) bool {
	if hasPrefixAny(name, "(*strings.Builder).", "(*bytes.Buffer).Write", "(hash.Hash).Write", "(hash.Hash32).Write") {
		return true
	}
	switch name {
	case "fmt.Fprintf", "fmt.Fprintln", "fmt.Fprint", "fmt.Errorf", "errors.New", "errors.Join":
		return true
	}
	return false
}

func ioPackage(fn *ssa.Function) bool {
	switch shortPkg(fnPkgPath(fn)) {
	case "hdf5", "core", "structures", "writer", "utils":
		return true
	}
	return false
}

// closeLike: resource release calls whose error may be dropped during cleanup
func closeLike(callee string) bool {
	return strings.HasSuffix(callee, ".Close") || strings.HasSuffix(callee, ").Close")
}

// onErrorPathOnly: every return reachable from the call returns a non-nil error.
func onErrorPathOnly(call ssa.Instruction) bool {
	fn := call.Parent()
	idx := errResultIndex(fn.Signature)
	if idx < 0 {
		return false
	}
	blocks := map[*ssa.BasicBlock]bool{call.Block(): true}
	for _, s := range call.Block().Succs {
		for b := range reachableFrom(s, nil) {
			blocks[b] = true
		}
	}
	n := 0
	for b := range blocks {
		if ret, ok := b.Instrs[len(b.Instrs)-1].(*ssa.Return); ok {
			if b == call.Block() && instrIndex(ret) < instrIndex(call) {
				continue
			}
			n++
			if mayBeNil(retOperand(ret, idx), map[ssa.Value]bool{}) {
				return false
			}
		}
	}
	return n > 0
}

// deferredCleanupClosure: fn is an anonymous function used only as the target of defer statements.
func deferredCleanupClosure(fn *ssa.Function) bool {
	if fn.Parent() == nil {
		return false
	}
	used := false
	ok := true
	instrs(fn.Parent(), func(in ssa.Instruction) {
		mc, isMC := in.(*ssa.MakeClosure)
		if isMC && mc.Fn == fn {
			for _, ref := range *mc.Referrers() {
				if _, isDefer := ref.(*ssa.Defer); isDefer {
					used = true
				} else if _, dbg := ref.(*ssa.DebugRef); !dbg {
					ok = false
				}
			}
		}
		if d, isD := in.(*ssa.Defer); isD {
			if f, isF := d.Call.Value.(*ssa.Function); isF && f == fn {
				used = true
			}
		}
	})
	return used && ok
}

func ruleC17ErrFlow(c *Ctx, r *Result) {
	var fns []*ssa.Function
	for _, fn := range c.LibFuncs() {
		if ioPackage(fn) {
			fns = append(fns, fn)
		}
	}
	sites := c.ErrSites(fns)
	for _, s := range sites {
		if infallibleCallee(s.Callee) {
			continue
		}
		base := c.Name(s.Caller) + "#" + s.Callee
		pos := c.InstrPos(s.Call)
		switch s.Kind {
		case ErrPropagated:
			r.Hold("C17.2", base+"#propagated", pos, "")
		case ErrEscapes:
			r.Undec("C17.2", base+"#escapes", pos, "error stored in a field / captured variable; not followed")
		case ErrDiscarded, ErrDeferred:
			switch {
			case closeLike(s.Callee) && s.Kind == ErrDeferred:
				r.Except("C17.1", base+"#deferred-close", pos, "idiom: deferred Close of a handle on the way out")
			case closeLike(s.Callee) && onErrorPathOnly(s.Call):
				r.Except("C17.1", base+"#close-on-error-path", pos, "idiom: Close during cleanup on a path where every return carries the primary error")
			case closeLike(s.Callee) && deferredCleanupClosure(s.Caller):
				r.Except("C17.1", base+"#close-in-deferred-cleanup", pos, "idiom: Close inside a closure that is only ever deferred")
			default:
				r.Viol("C17.1", base+"#discarded", pos, s.Detail)
			}
		case ErrEOFTol:
			r.Hold("C17.2", base+"#eof-tolerated", pos, "io.EOF tolerated; completeness of the short read is decided by C17.3")
			checkShortRead(c, r, s)
		default:
			if _, listed := exceptionFor("C17", "C17.2", base+"#"+s.Kind); !listed {
				if reason, ok := c.nameSearchSkip(s); ok {
					r.Except("C17.2", base+"#"+s.Kind, pos, reason)
					continue
				}
			}
			r.Viol("C17.2", base+"#"+s.Kind, pos, s.Detail)
		}
	}
	r.Floor("C17.2", 600)
	r.ApplyBaseline(verifDirGlobal, "C17.3", "short-read", shortReads)
	shortReads = map[string][]undecidedItem{}
}

// shortReads collects, per function, EOF-tolerating reads whose byte count is not shown to cover the buffer.
var shortReads = map[string][]undecidedItem{}

// checkShortRead (C17.3): after `n, err := r.ReadAt(buf, off)` with io.EOF tolerated, the code must establish
// n >= len(buf) (or return an error) before it goes on; proven with the bounds prover on the continuing edge.
func checkShortRead(c *Ctx, r *Result, s *ErrSite) {
	call, ok := s.Call.(*ssa.Call)
	if !ok || len(call.Call.Args) < 1 {
		return
	}
	fn := s.Caller
	name := c.Name(fn)
	pos := c.InstrPos(call)
	var nVal ssa.Value
	for _, ref := range *call.Referrers() {
		if ex, ok := ref.(*ssa.Extract); ok && ex.Index == 0 {
			nVal = ex
		}
	}
	// buffer argument: first argument of ReadAt (after receiver for invoke calls the args exclude the receiver)
	buf := call.Call.Args[0]
	if !call.Call.IsInvoke() && len(call.Call.Args) >= 2 {
		buf = call.Call.Args[1]
	}
	if nVal == nil || len(*nVal.Referrers()) == 0 {
		shortReads[name] = append(shortReads[name], undecidedItem{pos, "io.EOF is tolerated but the byte count is never looked at: a short read continues with a partly filled buffer"})
		return
	}
	fb := c.FB(fn)
	need := fb.lenLin(buf)
	// every block that uses the buffer after the call must know n >= len(buf)
	okAll := true
	uses := 0
	for _, ref := range *buf.Referrers() {
		in, ok := ref.(ssa.Instruction)
		if !ok || in == ssa.Instruction(call) || !canReach(call, in) {
			continue
		}
		if _, isRel := in.(*ssa.Defer); isRel {
			continue
		}
		if cc, isCall := in.(*ssa.Call); isCall && strings.HasSuffix(c.calleeName(cc), "ReleaseBuffer") {
			continue
		}
		uses++
		if !fb.prove(fb.lin(nVal).add(need, -1), fb.blockFacts(in.Block()), 3) {
			okAll = false
		}
	}
	if okAll && uses > 0 {
		r.Hold("C17.3", name+"#short-read-complete", pos, "every use of the buffer after the read is dominated by n >= len(buffer)")
	} else {
		shortReads[name] = append(shortReads[name], undecidedItem{pos, "io.EOF is tolerated and the test on the byte count does not imply n >= len(buffer): bytes beyond n stay zero and are parsed as if read"})
	}
}

// ioFree: fn and everything it reaches in the library performs no I/O primitive (its errors are about bytes already
// in memory, never about a failed or short read).
func (c *Ctx) ioFree(fn *ssa.Function) bool {
	if c.ioFreeMemo == nil {
		c.ioFreeMemo = map[*ssa.Function]bool{}
	}
	if v, ok := c.ioFreeMemo[fn]; ok {
		return v
	}
	free := true
	set := c.Reach([]*ssa.Function{fn}, func(f *ssa.Function) bool { return !libPackage(fnPkgPath(f)) })
	set[fn] = true
	for f := range set {
		if f.Blocks == nil {
			continue
		}
		instrs(f, func(in ssa.Instruction) {
			if call, ok := in.(*ssa.Call); ok && c.ioPrimitiveCall(call) {
				free = false
			}
		})
	}
	c.ioFreeMemo[fn] = free
	return free
}

// nameSearchSkip: the idiom "search the already-read header messages for the one called <name>": the swallowed error
// comes from an I/O-free parse, and the parsed value's Name is compared with a string parameter of the searching
// function. An entry that does not parse cannot be selected by name; no I/O result is involved. Decided from the shape
// of the code, so that the search loop may live in any function.
func (c *Ctx) nameSearchSkip(s *ErrSite) (string, bool) {
	if s.Kind != "swallowed" {
		return "", false
	}
	call, ok := s.Call.(*ssa.Call)
	if !ok {
		return "", false
	}
	callee := call.Call.StaticCallee()
	if callee == nil || callee.Blocks == nil || !libPackage(fnPkgPath(callee)) || !c.ioFree(callee) {
		return "", false
	}
	// values reached from the call's non-error results through field selection and loads
	seen := map[ssa.Value]bool{}
	var frontier []ssa.Value
	for _, ref := range *call.Referrers() {
		if ex, ok := ref.(*ssa.Extract); ok && !isErrorType(ex.Type()) {
			frontier = append(frontier, ex)
		}
	}
	nameCompared := false
	for len(frontier) > 0 {
		v := frontier[0]
		frontier = frontier[1:]
		if seen[v] || len(seen) > 64 {
			continue
		}
		seen[v] = true
		refs := v.Referrers()
		if refs == nil {
			continue
		}
		for _, ref := range *refs {
			switch x := ref.(type) {
			case *ssa.FieldAddr:
				if x.X == v {
					frontier = append(frontier, x)
				}
			case *ssa.Field:
				frontier = append(frontier, x)
			case *ssa.UnOp:
				if x.Op == token.MUL {
					frontier = append(frontier, x)
				}
			case *ssa.BinOp:
				if x.Op != token.EQL && x.Op != token.NEQ {
					continue
				}
				if b, ok := x.X.Type().Underlying().(*types.Basic); !ok || b.Info()&types.IsString == 0 {
					continue
				}
				other := x.X
				if other == v {
					other = x.Y
				}
				for _, p := range s.Caller.Params {
					if derivedFromValue(other, p, 0) {
						nameCompared = true
					}
				}
			}
		}
	}
	if !nameCompared {
		return "", false
	}
	return "idiom (decided structurally): in-memory parse of an already-read header message while searching by name - the callee reaches no I/O primitive and the parsed name is compared with the requested one; an unparsable message cannot be the named one", true
}

func init() {
	reg := registry["C17"]
	reg.Meta.Rules["C17.4"] = "a deferred function does not overwrite the error the body is returning: a store to the function's named error result inside a deferred closure is made only where that result is known to be nil (`if err == nil { err = cerr }`)"
	reg.Rules = append(reg.Rules, func(c *Ctx, r *Result) {
		n := 0
		for _, fn := range c.LibFuncs() {
			if !ioPackage(fn) || fn.Blocks == nil {
				continue
			}
			idx := errResultIndex(fn.Signature)
			if idx < 0 {
				continue
			}
			// the named error result: the variable the returns read their error from
			var resVar *ssa.Alloc
			for _, ret := range returnsOf(fn) {
				if idx < len(ret.Results) {
					if ld, ok := isLoad(ret.Results[idx]); ok {
						if al, ok := ld.X.(*ssa.Alloc); ok {
							resVar = al
						}
					}
				}
			}
			if resVar == nil {
				continue
			}
			instrs(fn, func(in ssa.Instruction) {
				d, ok := in.(*ssa.Defer)
				if !ok {
					return
				}
				mc, ok := d.Call.Value.(*ssa.MakeClosure)
				if !ok {
					return
				}
				cl, ok := mc.Fn.(*ssa.Function)
				if !ok {
					return
				}
				for i, b := range mc.Bindings {
					if b != ssa.Value(resVar) || i >= len(cl.FreeVars) {
						continue
					}
					fv := cl.FreeVars[i]
					instrs(cl, func(y ssa.Instruction) {
						st, ok := y.(*ssa.Store)
						if !ok || st.Addr != ssa.Value(fv) {
							return
						}
						n++
						// guarded by the nil side of a test of the same variable
						guarded := false
						for _, blk := range cl.Blocks {
							ifi, ok := blk.Instrs[len(blk.Instrs)-1].(*ssa.If)
							if !ok || blk.Succs[0] == blk.Succs[1] {
								continue
							}
							bo, ok := ifi.Cond.(*ssa.BinOp)
							if !ok || (bo.Op != token.EQL && bo.Op != token.NEQ) || !isNilConst(bo.Y) {
								continue
							}
							ld, ok := isLoad(bo.X)
							if !ok || ld.X != ssa.Value(fv) {
								continue
							}
							// the load must not come after an earlier store in the closure (it must read the body's value)
							nilSide := blk.Succs[0]
							if bo.Op == token.NEQ {
								nilSide = blk.Succs[1]
							}
							if edgeDominates(blk, nilSide, st.Block()) {
								guarded = true
							}
						}
						r.Check(guarded, "C17.4", c.Name(fn)+"#deferred-store-to-error-result", c.InstrPos(st), "the deferred function assigns the named error result only where it is nil; an unconditional assignment replaces the error the body returned (with nil, when the deferred call succeeds)")
					})
				}
			})
		}
		if n == 0 {
			r.Hold("C17.4", "module#no-deferred-store-to-error-result", "", "no deferred closure assigns a named error result")
		}
	})
}

func init() {
	reg := registry["C17"]
	reg.Meta.Rules["C17.5"] = "an error kept in a field is kept: where the result of a fallible call is stored into an error-typed field (an 'errors are values' accumulator), the store happens only where that field is known to be nil - otherwise the outcome of a later, successful call replaces an earlier failure"
	reg.Rules = append(reg.Rules, func(c *Ctx, r *Result) {
		n := 0
		for _, fn := range c.LibFuncs() {
			if !ioPackage(fn) || fn.Blocks == nil {
				continue
			}
			instrs(fn, func(in ssa.Instruction) {
				st, ok := in.(*ssa.Store)
				if !ok || !isErrorType(st.Val.Type()) {
					return
				}
				fa, ok := st.Addr.(*ssa.FieldAddr)
				if !ok {
					return
				}
				f, base := fieldOfAddr(fa)
				if f == nil {
					return
				}
				// only results of calls (possibly nil): storing a constructed error or nil is a different matter
				src := st.Val
				if ex, isEx := src.(*ssa.Extract); isEx {
					src = ex.Tuple
				}
				if _, isCall := src.(*ssa.Call); !isCall {
					return
				}
				if call := src.(*ssa.Call); isErrorConstructor(call) {
					return
				}
				n++
				// the field is nil here: dominated by the nil edge of a test of the same field
				guarded := false
				for _, b := range fn.Blocks {
					ifi, ok := b.Instrs[len(b.Instrs)-1].(*ssa.If)
					if !ok || b.Succs[0] == b.Succs[1] {
						continue
					}
					bo, ok := ifi.Cond.(*ssa.BinOp)
					if !ok || (bo.Op != token.EQL && bo.Op != token.NEQ) || !isNilConst(bo.Y) {
						continue
					}
					ld, ok := isLoad(bo.X)
					if !ok {
						continue
					}
					fa2, ok := ld.X.(*ssa.FieldAddr)
					if !ok {
						continue
					}
					f2, base2 := fieldOfAddr(fa2)
					if f2 != f || base2 != base {
						continue
					}
					nilSide := b.Succs[0]
					if bo.Op == token.NEQ {
						nilSide = b.Succs[1]
					}
					if edgeDominates(b, nilSide, st.Block()) {
						guarded = true
					}
				}
				r.Check(guarded, "C17.5", c.Name(fn)+"#"+fieldKey(base.Type(), f)+"#error-field-is-sticky", c.InstrPos(st), "the call's error is stored into the field only where the field is nil; an unconditional store lets a later success erase an earlier failure")
			})
		}
		if n == 0 {
			r.Hold("C17.5", "module#no-error-accumulator-field", "", "no result of a fallible call is stored into an error-typed field")
		}
	})
}
