package main

func init() {
	register("C17", PropMeta{
		Title: "Truncated files and failing I/O produce errors, never different answers",
		Rules: map[string]string{},
	}, ruleC17ErrFlow)
}

func ruleC17ErrFlow(c *Ctx, r *Result) {
	sites := c.ErrSites(c.LibFuncs())
	for _, s := range sites {
		st := Holds
		if s.Kind != ErrPropagated {
			st = Violated
		}
		r.Add("C17.2", c.Name(s.Caller)+"#"+s.Callee+"#"+s.Kind, c.InstrPos(s.Call), st, s.Detail)
	}
}
