package main

import (
	"go/token"
	"go/types"
	"sort"
	"strings"

	"golang.org/x/tools/go/ssa"
)

// E-LOCK: must-hold lock sets per program point (intraprocedural dataflow, with entry sets for
// unexported helpers taken as the intersection over their static call sites).

type lockKey struct {
	base  ssa.Value // object whose mutex field is locked (canonical)
	field *types.Var
}

type lockSet map[lockKey]bool

func (a lockSet) clone() lockSet {
	b := lockSet{}
	for k := range a {
		b[k] = true
	}
	return b
}
func intersect(a, b lockSet) lockSet {
	out := lockSet{}
	for k := range a {
		if b[k] {
			out[k] = true
		}
	}
	return out
}
func equalLS(a, b lockSet) bool {
	if len(a) != len(b) {
		return false
	}
	for k := range a {
		if !b[k] {
			return false
		}
	}
	return true
}

func isMutexType(t types.Type) bool {
	n := namedOf(t)
	if n == nil || n.Obj().Pkg() == nil || n.Obj().Pkg().Path() != "sync" {
		return false
	}
	return n.Obj().Name() == "Mutex" || n.Obj().Name() == "RWMutex"
}

// mutexOp: if the call is mu.Lock/RLock/Unlock/RUnlock on a field mutex, returns key and +1/-1.
func mutexOp(call *ssa.CallCommon) (lockKey, int) {
	f := call.StaticCallee()
	if f == nil || f.Pkg == nil || f.Pkg.Pkg.Path() != "sync" || len(call.Args) < 1 {
		return lockKey{}, 0
	}
	var d int
	switch f.Name() {
	case "Lock", "RLock":
		d = 1
	case "Unlock", "RUnlock":
		d = -1
	default:
		return lockKey{}, 0
	}
	fa, ok := call.Args[0].(*ssa.FieldAddr)
	if !ok {
		return lockKey{}, 0
	}
	fld, base := fieldOfAddr(fa)
	if fld == nil || !isMutexType(fld.Type()) {
		return lockKey{}, 0
	}
	return lockKey{canonBase(base), fld}, d
}

// canonBase: strip loads of the same parameter/receiver (methods use the receiver value directly).
func canonBase(v ssa.Value) ssa.Value {
	// a closure reaches its receiver through a captured variable: every load of that variable is the same object
	if u, ok := v.(*ssa.UnOp); ok && u.Op == token.MUL {
		if fv, isFV := u.X.(*ssa.FreeVar); isFV {
			return fv
		}
	}
	return v
}

type lockInfo struct {
	at map[ssa.Instruction]lockSet // locks held before each instruction
}

// LocksIn computes must-hold sets for fn given the set held on entry.
func LocksIn(fn *ssa.Function, entry lockSet) *lockInfo { return locksInMode(fn, entry, 0) }

// locksInMode: mode 0 counts Lock and RLock alike; mode 1 only RLock/RUnlock (shared holds); mode 2 only Lock/Unlock.
func locksInMode(fn *ssa.Function, entry lockSet, mode int) *lockInfo {
	in := map[*ssa.BasicBlock]lockSet{}
	out := map[*ssa.BasicBlock]lockSet{}
	info := &lockInfo{at: map[ssa.Instruction]lockSet{}}
	if len(fn.Blocks) == 0 {
		return info
	}
	work := []*ssa.BasicBlock{fn.Blocks[0]}
	in[fn.Blocks[0]] = entry.clone()
	visited := map[*ssa.BasicBlock]bool{}
	for len(work) > 0 {
		b := work[0]
		work = work[1:]
		cur := in[b].clone()
		for _, ins := range b.Instrs {
			info.at[ins] = cur.clone()
			switch x := ins.(type) {
			case *ssa.Call:
				k, d := mutexOp(&x.Call)
				if d != 0 && mode != 0 {
					shared := strings.HasPrefix(x.Call.StaticCallee().Name(), "R")
					if (mode == 1) != shared {
						d = 0
					}
				}
				if d > 0 {
					cur[k] = true
				} else if d < 0 {
					delete(cur, k)
				}
			case *ssa.Defer:
				// deferred unlock: lock stays held until the function returns
			}
		}
		if prev, ok := out[b]; ok && equalLS(prev, cur) && visited[b] {
			continue
		}
		out[b] = cur
		visited[b] = true
		for _, s := range b.Succs {
			if old, ok := in[s]; ok {
				n := intersect(old, cur)
				if !equalLS(n, old) {
					in[s] = n
					work = append(work, s)
				} else if !visited[s] {
					work = append(work, s)
				}
			} else {
				in[s] = cur.clone()
				work = append(work, s)
			}
		}
	}
	return info
}

// FieldAccess is one load or store of a struct field.
type FieldAccess struct {
	Fn     *ssa.Function
	In     ssa.Instruction
	Key    string
	Field  *types.Var
	Base   ssa.Value
	Write  bool
	Locked bool // the owner's mutex is held
}

// mutexFieldOf returns the mutex fields of the struct type that owns f's base.
func mutexFieldsOf(t types.Type) []*types.Var {
	st := derefStruct(t)
	if st == nil {
		return nil
	}
	var out []*types.Var
	for i := 0; i < st.NumFields(); i++ {
		if isMutexType(st.Field(i).Type()) {
			out = append(out, st.Field(i))
		}
	}
	return out
}

// LockedAccesses lists accesses to fields of mutex-carrying structs in fn with their lock status.
// entry: locks assumed held on entry, expressed on the receiver parameter.
func (c *Ctx) LockedAccesses(fn *ssa.Function, entryHeld bool) []FieldAccess {
	entry := lockSet{}
	if entryHeld && len(fn.Params) > 0 {
		for _, m := range mutexFieldsOf(fn.Params[0].Type()) {
			entry[lockKey{fn.Params[0], m}] = true
		}
	}
	li := LocksIn(fn, entry)
	var out []FieldAccess
	instrs(fn, func(in ssa.Instruction) {
		var fa *ssa.FieldAddr
		write := false
		switch x := in.(type) {
		case *ssa.UnOp:
			if x.Op == token.MUL {
				fa, _ = x.X.(*ssa.FieldAddr)
			}
		case *ssa.Store:
			fa, _ = x.Addr.(*ssa.FieldAddr)
			write = true
		}
		if fa == nil {
			return
		}
		fld, base := fieldOfAddr(fa)
		if fld == nil || isMutexType(fld.Type()) {
			return
		}
		ms := mutexFieldsOf(base.Type())
		if len(ms) == 0 {
			return
		}
		held := false
		for k := range li.at[in] {
			if k.base == base || k.base == canonBase(base) {
				held = true
			}
		}
		out = append(out, FieldAccess{Fn: fn, In: in, Key: fieldKey(base.Type(), fld), Field: fld, Base: base, Write: write, Locked: held})
	})
	sort.SliceStable(out, func(i, j int) bool { return posLess(out[i].In, out[j].In) })
	return out
}

// heldAtAllCallSites: an unexported method is only ever called (statically) with its receiver's mutex held.
func (c *Ctx) heldAtAllCallSites(fn *ssa.Function, depth int) bool {
	memo, _ := c.cache["heldAll"].(map[*ssa.Function]int)
	if memo == nil {
		memo = map[*ssa.Function]int{}
		c.cache["heldAll"] = memo
	}
	if v, ok := memo[fn]; ok {
		return v == 1
	}
	memo[fn] = 2
	if fn.Signature.Recv() == nil || len(fn.Params) == 0 || (fn.Object() != nil && fn.Object().Exported()) || depth > 3 {
		return false
	}
	node := c.CG.Nodes[fn]
	if node == nil || len(node.In) == 0 {
		return false
	}
	for _, e := range node.In {
		site := e.Site
		if site == nil || site.Common().StaticCallee() != fn {
			return false
		}
		if _, isGo := site.(*ssa.Go); isGo {
			return false
		}
		caller := site.Parent()
		entryHeld := c.heldAtAllCallSites(caller, depth+1)
		entry := lockSet{}
		if entryHeld && len(caller.Params) > 0 {
			for _, m := range mutexFieldsOf(caller.Params[0].Type()) {
				entry[lockKey{caller.Params[0], m}] = true
			}
		}
		li := LocksIn(caller, entry)
		recv := site.Common().Args[0]
		held := false
		for k := range li.at[site.(ssa.Instruction)] {
			if k.base == recv {
				held = true
			}
		}
		if !held {
			return false
		}
	}
	memo[fn] = 1
	return true
}
