package main

import (
	"go/token"
	"go/types"

	"golang.org/x/tools/go/ssa"
)

// A small interprocedural constant evaluator: integers built from constants, arithmetic, parameters bound by the caller,
// one-return helper/method calls, and fields of objects built by a constructor call (`NewX(k)` storing k into a field that
// a method later reads). No loops, no branches: anything else is "unknown". Used to compare sizes and addresses that the
// source spells as named quantities.
type cenv struct {
	c     *Ctx
	param map[*ssa.Parameter]cval
	depth int
	came  map[*ssa.BasicBlock]*ssa.BasicBlock // conditional constant propagation: the edge taken into each block
	ret   *ssa.Return                         // the return the simulated path reaches
}

// simulate follows the branches of fn whose conditions evaluate to constants (branch folding) from the entry block and
// records the path; it gives up on a loop or an undecidable condition.
func (e *cenv) simulate(fn *ssa.Function) bool {
	e.came = map[*ssa.BasicBlock]*ssa.BasicBlock{}
	b := fn.Blocks[0]
	seen := map[*ssa.BasicBlock]bool{}
	for steps := 0; steps < 256; steps++ {
		if seen[b] {
			return false
		}
		seen[b] = true
		switch x := b.Instrs[len(b.Instrs)-1].(type) {
		case *ssa.Return:
			e.ret = x
			return true
		case *ssa.Jump:
			e.came[b.Succs[0]] = b
			b = b.Succs[0]
		case *ssa.If:
			cmp, ok := x.Cond.(*ssa.BinOp)
			if !ok || !isCmp(cmp.Op) {
				return false
			}
			l, r := e.eval(cmp.X), e.eval(cmp.Y)
			if !l.known || !r.known {
				return false
			}
			next := b.Succs[1]
			if evalCmp(cmp.Op, l.n, r.n) {
				next = b.Succs[0]
			}
			e.came[next] = b
			b = next
		default:
			return false
		}
	}
	return false
}

// cval: a known integer, or an object whose construction site is known
type cval struct {
	known bool
	n     int64
	obj   ssa.Value // constructor call / alloc in its own environment
	env   *cenv
}

func (c *Ctx) constEval(v ssa.Value) (int64, bool) {
	e := &cenv{c: c, param: map[*ssa.Parameter]cval{}}
	r := e.eval(v)
	return r.n, r.known
}

func (e *cenv) eval(v ssa.Value) cval {
	if e.depth > 6 {
		return cval{}
	}
	switch x := v.(type) {
	case *ssa.Const:
		if k, ok := constInt(x); ok {
			return cval{known: true, n: k}
		}
	case *ssa.Parameter:
		if cv, ok := e.param[x]; ok {
			return cv
		}
	case *ssa.Convert:
		return e.eval(x.X)
	case *ssa.ChangeType:
		return e.eval(x.X)
	case *ssa.Phi:
		if from, ok := e.came[x.Block()]; ok {
			for i, p := range x.Block().Preds {
				if p == from {
					return e.eval(x.Edges[i])
				}
			}
		}
	case *ssa.BinOp:
		a, b := e.eval(x.X), e.eval(x.Y)
		if !a.known || !b.known {
			return cval{}
		}
		switch x.Op {
		case token.ADD:
			return cval{known: true, n: a.n + b.n}
		case token.SUB:
			return cval{known: true, n: a.n - b.n}
		case token.MUL:
			return cval{known: true, n: a.n * b.n}
		case token.QUO:
			if b.n != 0 {
				return cval{known: true, n: a.n / b.n}
			}
		case token.REM:
			if b.n != 0 {
				return cval{known: true, n: a.n % b.n}
			}
		case token.SHL:
			if b.n >= 0 && b.n < 63 {
				return cval{known: true, n: a.n << uint(b.n)}
			}
		}
	case *ssa.UnOp:
		if x.Op != token.MUL {
			return cval{}
		}
		// load of a field of an object whose construction is known
		if fa, ok := x.X.(*ssa.FieldAddr); ok {
			obj := e.object(fa.X)
			if obj.obj != nil {
				return obj.env.fieldOf(obj.obj, fa.Field)
			}
		}
	case *ssa.Call:
		callee := x.Call.StaticCallee()
		if callee == nil || callee.Blocks == nil || !inModule(fnPkgPath(callee)) || len(callee.Params) != len(x.Call.Args) {
			return cval{}
		}
		if isPointerToStruct(x.Type()) {
			return cval{obj: x, env: e}
		}
		sub := &cenv{c: e.c, param: map[*ssa.Parameter]cval{}, depth: e.depth + 1}
		for i, a := range x.Call.Args {
			if isPointerToStruct(a.Type()) {
				sub.param[callee.Params[i]] = e.object(a)
			} else {
				sub.param[callee.Params[i]] = e.eval(a)
			}
		}
		if sub.simulate(callee) && len(sub.ret.Results) >= 1 {
			return sub.eval(sub.ret.Results[0])
		}
	}
	return cval{}
}

func isPointerToStruct(t types.Type) bool {
	p, ok := t.Underlying().(*types.Pointer)
	if !ok {
		return false
	}
	_, ok = p.Elem().Underlying().(*types.Struct)
	return ok
}

// object: the construction site (constructor call or alloc) a pointer value denotes
func (e *cenv) object(v ssa.Value) cval {
	switch x := v.(type) {
	case *ssa.Parameter:
		if cv, ok := e.param[x]; ok {
			return cv
		}
	case *ssa.Call:
		if isPointerToStruct(x.Type()) {
			return cval{obj: x, env: e}
		}
	case *ssa.Alloc:
		return cval{obj: x, env: e}
	}
	return cval{}
}

// fieldOf: the value a constructor stored into field idx of the object it returns (single store), evaluated in the
// constructor's environment.
func (e *cenv) fieldOf(obj ssa.Value, idx int) cval {
	var al *ssa.Alloc
	env := e
	switch x := obj.(type) {
	case *ssa.Alloc:
		al = x
	case *ssa.Call:
		callee := x.Call.StaticCallee()
		if callee == nil || callee.Blocks == nil || len(callee.Params) != len(x.Call.Args) {
			return cval{}
		}
		env = &cenv{c: e.c, param: map[*ssa.Parameter]cval{}, depth: e.depth + 1}
		for i, a := range x.Call.Args {
			env.param[callee.Params[i]] = e.eval(a)
		}
		if !env.simulate(callee) || len(env.ret.Results) < 1 {
			return cval{}
		}
		a, isAl := env.ret.Results[0].(*ssa.Alloc)
		if !isAl {
			return cval{}
		}
		al = a
	}
	if al == nil || env.depth > 6 {
		return cval{}
	}
	var val ssa.Value
	n := 0
	for _, ref := range *al.Referrers() {
		fa, ok := ref.(*ssa.FieldAddr)
		if !ok || fa.Field != idx {
			continue
		}
		for _, r2 := range *fa.Referrers() {
			if st, ok := r2.(*ssa.Store); ok && st.Addr == ssa.Value(fa) {
				n++
				val = st.Val
			}
		}
	}
	if n == 0 {
		return cval{known: true, n: 0} // zero value of a fresh object
	}
	if n != 1 {
		return cval{}
	}
	return env.eval(val)
}

// ---- residue interpretation: how a function of one unsigned integer x moves x, per residue class of x modulo 8 ----
//
// Abstract values: a constant, x+d (the argument shifted by a known amount), or (x+e)/8 with x+e known to be a multiple of
// 8. With the residue r of x fixed, x%8, x&7, x&^7, x/8*8, x>>3<<3 and every comparison between constants are decided, so
// the rounding idioms evaluate to x+delta(r) without running anything. Anything else is "unknown".
type rval struct {
	kind int // 0 unknown, 1 const, 2 x+d, 3 (x+d)/8 exact
	n    int64
}

type renv struct {
	p    *ssa.Parameter
	r    int64
	came map[*ssa.BasicBlock]*ssa.BasicBlock
}

func mod8(a int64) int64 { return ((a % 8) + 8) % 8 }

func (e *renv) eval(v ssa.Value, depth int) rval {
	if depth > 40 {
		return rval{}
	}
	switch x := v.(type) {
	case *ssa.Const:
		if k, ok := constInt(x); ok {
			return rval{1, k}
		}
	case *ssa.Parameter:
		if x == e.p {
			return rval{2, 0}
		}
	case *ssa.Convert:
		return e.eval(x.X, depth+1)
	case *ssa.Phi:
		if from, ok := e.came[x.Block()]; ok {
			for i, p := range x.Block().Preds {
				if p == from {
					return e.eval(x.Edges[i], depth+1)
				}
			}
		}
	case *ssa.BinOp:
		a, b := e.eval(x.X, depth+1), e.eval(x.Y, depth+1)
		if a.kind == 0 || b.kind == 0 {
			return rval{}
		}
		if a.kind == 1 && b.kind == 1 {
			switch x.Op {
			case token.ADD:
				return rval{1, a.n + b.n}
			case token.SUB:
				return rval{1, a.n - b.n}
			case token.MUL:
				return rval{1, a.n * b.n}
			case token.QUO:
				if b.n != 0 {
					return rval{1, a.n / b.n}
				}
			case token.REM:
				if b.n != 0 {
					return rval{1, a.n % b.n}
				}
			case token.AND:
				return rval{1, a.n & b.n}
			case token.AND_NOT:
				return rval{1, a.n &^ b.n}
			case token.SHL:
				if b.n >= 0 && b.n < 32 {
					return rval{1, a.n << uint(b.n)}
				}
			case token.SHR:
				if b.n >= 0 && b.n < 32 {
					return rval{1, a.n >> uint(b.n)}
				}
			}
			return rval{}
		}
		switch {
		case a.kind == 2 && b.kind == 1:
			res := mod8(e.r + a.n)
			switch x.Op {
			case token.ADD:
				return rval{2, a.n + b.n}
			case token.SUB:
				return rval{2, a.n - b.n}
			case token.REM:
				if b.n == 8 {
					return rval{1, res}
				}
			case token.AND:
				if b.n == 7 {
					return rval{1, res}
				}
			case token.AND_NOT:
				if b.n == 7 {
					return rval{2, a.n - res}
				}
			case token.QUO:
				if b.n == 8 {
					return rval{3, a.n - res}
				}
			case token.SHR:
				if b.n == 3 {
					return rval{3, a.n - res}
				}
			}
		case a.kind == 1 && b.kind == 2:
			if x.Op == token.ADD {
				return rval{2, a.n + b.n}
			}
		case a.kind == 3 && b.kind == 1:
			switch x.Op {
			case token.ADD:
				return rval{3, a.n + 8*b.n}
			case token.SUB:
				return rval{3, a.n - 8*b.n}
			case token.MUL:
				if b.n == 8 {
					return rval{2, a.n}
				}
			case token.SHL:
				if b.n == 3 {
					return rval{2, a.n}
				}
			}
		case a.kind == 1 && b.kind == 3:
			if x.Op == token.MUL && a.n == 8 {
				return rval{2, b.n}
			}
			if x.Op == token.ADD {
				return rval{3, b.n + 8*a.n}
			}
		case a.kind == 2 && b.kind == 2:
			if x.Op == token.SUB {
				return rval{1, a.n - b.n}
			}
		}
	}
	return rval{}
}

// residueShift: for the one-parameter function fn and x ≡ r (mod 8), the constant d with fn(x) = x + d on the path that x
// takes, if the residue interpretation decides every branch.
func residueShift(fn *ssa.Function, r int64) (int64, bool) {
	if len(fn.Params) != 1 || len(fn.Blocks) == 0 {
		return 0, false
	}
	e := &renv{p: fn.Params[0], r: r, came: map[*ssa.BasicBlock]*ssa.BasicBlock{}}
	b := fn.Blocks[0]
	seen := map[*ssa.BasicBlock]bool{}
	for steps := 0; steps < 64; steps++ {
		if seen[b] {
			return 0, false
		}
		seen[b] = true
		switch x := b.Instrs[len(b.Instrs)-1].(type) {
		case *ssa.Return:
			if len(x.Results) != 1 {
				return 0, false
			}
			v := e.eval(x.Results[0], 0)
			if v.kind != 2 {
				return 0, false
			}
			return v.n, true
		case *ssa.Jump:
			e.came[b.Succs[0]] = b
			b = b.Succs[0]
		case *ssa.If:
			cmp, ok := x.Cond.(*ssa.BinOp)
			if !ok || !isCmp(cmp.Op) {
				return 0, false
			}
			l, rr := e.eval(cmp.X, 0), e.eval(cmp.Y, 0)
			if l.kind != 1 || rr.kind != 1 {
				return 0, false
			}
			next := b.Succs[1]
			if evalCmp(cmp.Op, l.n, rr.n) {
				next = b.Succs[0]
			}
			e.came[next] = b
			b = next
		default:
			return 0, false
		}
	}
	return 0, false
}
