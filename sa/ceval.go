package main

import (
	"go/token"
	"go/types"

	"golang.org/x/tools/go/ssa"
)

// A small interprocedural constant evaluator: integers built from constants, arithmetic, parameters bound by the caller,
// one-return helper/method calls, and fields of objects built by a constructor call (`NewX(k)` storing k into a field that
// a method later reads). No loops, no branches: anything else is "unknown". Used to compare sizes and addresses that the
// source spells as named quantities.
type cenv struct {
	c     *Ctx
	param map[*ssa.Parameter]cval
	depth int
	came  map[*ssa.BasicBlock]*ssa.BasicBlock // conditional constant propagation: the edge taken into each block
	ret   *ssa.Return                         // the return the simulated path reaches
}

// simulate follows the branches of fn whose conditions evaluate to constants (branch folding) from the entry block and
// records the path; it gives up on a loop or an undecidable condition.
func (e *cenv) simulate(fn *ssa.Function) bool {
	e.came = map[*ssa.BasicBlock]*ssa.BasicBlock{}
	b := fn.Blocks[0]
	seen := map[*ssa.BasicBlock]bool{}
	for steps := 0; steps < 256; steps++ {
		if seen[b] {
			return false
		}
		seen[b] = true
		switch x := b.Instrs[len(b.Instrs)-1].(type) {
		case *ssa.Return:
			e.ret = x
			return true
		case *ssa.Jump:
			e.came[b.Succs[0]] = b
			b = b.Succs[0]
		case *ssa.If:
			cmp, ok := x.Cond.(*ssa.BinOp)
			if !ok || !isCmp(cmp.Op) {
				return false
			}
			l, r := e.eval(cmp.X), e.eval(cmp.Y)
			if !l.known || !r.known {
				return false
			}
			next := b.Succs[1]
			if evalCmp(cmp.Op, l.n, r.n) {
				next = b.Succs[0]
			}
			e.came[next] = b
			b = next
		default:
			return false
		}
	}
	return false
}

// cval: a known integer, or an object whose construction site is known
type cval struct {
	known bool
	n     int64
	obj   ssa.Value // constructor call / alloc in its own environment
	env   *cenv
}

func (c *Ctx) constEval(v ssa.Value) (int64, bool) {
	e := &cenv{c: c, param: map[*ssa.Parameter]cval{}}
	r := e.eval(v)
	return r.n, r.known
}

func (e *cenv) eval(v ssa.Value) cval {
	if e.depth > 6 {
		return cval{}
	}
	switch x := v.(type) {
	case *ssa.Const:
		if k, ok := constInt(x); ok {
			return cval{known: true, n: k}
		}
	case *ssa.Parameter:
		if cv, ok := e.param[x]; ok {
			return cv
		}
	case *ssa.Convert:
		return e.eval(x.X)
	case *ssa.ChangeType:
		return e.eval(x.X)
	case *ssa.Phi:
		if from, ok := e.came[x.Block()]; ok {
			for i, p := range x.Block().Preds {
				if p == from {
					return e.eval(x.Edges[i])
				}
			}
		}
	case *ssa.BinOp:
		a, b := e.eval(x.X), e.eval(x.Y)
		if !a.known || !b.known {
			return cval{}
		}
		switch x.Op {
		case token.ADD:
			return cval{known: true, n: a.n + b.n}
		case token.SUB:
			return cval{known: true, n: a.n - b.n}
		case token.MUL:
			return cval{known: true, n: a.n * b.n}
		case token.QUO:
			if b.n != 0 {
				return cval{known: true, n: a.n / b.n}
			}
		case token.REM:
			if b.n != 0 {
				return cval{known: true, n: a.n % b.n}
			}
		case token.SHL:
			if b.n >= 0 && b.n < 63 {
				return cval{known: true, n: a.n << uint(b.n)}
			}
		}
	case *ssa.UnOp:
		if x.Op != token.MUL {
			return cval{}
		}
		// load of a field of an object whose construction is known
		if fa, ok := x.X.(*ssa.FieldAddr); ok {
			obj := e.object(fa.X)
			if obj.obj != nil {
				return obj.env.fieldOf(obj.obj, fa.Field)
			}
		}
	case *ssa.Call:
		callee := x.Call.StaticCallee()
		if callee == nil || callee.Blocks == nil || !inModule(fnPkgPath(callee)) || len(callee.Params) != len(x.Call.Args) {
			return cval{}
		}
		if isPointerToStruct(x.Type()) {
			return cval{obj: x, env: e}
		}
		sub := &cenv{c: e.c, param: map[*ssa.Parameter]cval{}, depth: e.depth + 1}
		for i, a := range x.Call.Args {
			if isPointerToStruct(a.Type()) {
				sub.param[callee.Params[i]] = e.object(a)
			} else {
				sub.param[callee.Params[i]] = e.eval(a)
			}
		}
		if sub.simulate(callee) && len(sub.ret.Results) >= 1 {
			return sub.eval(sub.ret.Results[0])
		}
	}
	return cval{}
}

func isPointerToStruct(t types.Type) bool {
	p, ok := t.Underlying().(*types.Pointer)
	if !ok {
		return false
	}
	_, ok = p.Elem().Underlying().(*types.Struct)
	return ok
}

// object: the construction site (constructor call or alloc) a pointer value denotes
func (e *cenv) object(v ssa.Value) cval {
	switch x := v.(type) {
	case *ssa.Parameter:
		if cv, ok := e.param[x]; ok {
			return cv
		}
	case *ssa.Call:
		if isPointerToStruct(x.Type()) {
			return cval{obj: x, env: e}
		}
	case *ssa.Alloc:
		return cval{obj: x, env: e}
	}
	return cval{}
}

// fieldOf: the value a constructor stored into field idx of the object it returns (single store), evaluated in the
// constructor's environment.
func (e *cenv) fieldOf(obj ssa.Value, idx int) cval {
	var al *ssa.Alloc
	env := e
	switch x := obj.(type) {
	case *ssa.Alloc:
		al = x
	case *ssa.Call:
		callee := x.Call.StaticCallee()
		if callee == nil || callee.Blocks == nil || len(callee.Params) != len(x.Call.Args) {
			return cval{}
		}
		env = &cenv{c: e.c, param: map[*ssa.Parameter]cval{}, depth: e.depth + 1}
		for i, a := range x.Call.Args {
			env.param[callee.Params[i]] = e.eval(a)
		}
		if !env.simulate(callee) || len(env.ret.Results) < 1 {
			return cval{}
		}
		a, isAl := env.ret.Results[0].(*ssa.Alloc)
		if !isAl {
			return cval{}
		}
		al = a
	}
	if al == nil || env.depth > 6 {
		return cval{}
	}
	var val ssa.Value
	n := 0
	for _, ref := range *al.Referrers() {
		fa, ok := ref.(*ssa.FieldAddr)
		if !ok || fa.Field != idx {
			continue
		}
		for _, r2 := range *fa.Referrers() {
			if st, ok := r2.(*ssa.Store); ok && st.Addr == ssa.Value(fa) {
				n++
				val = st.Val
			}
		}
	}
	if n == 0 {
		return cval{known: true, n: 0} // zero value of a fresh object
	}
	if n != 1 {
		return cval{}
	}
	return env.eval(val)
}
