package main

import (
	"go/constant"
	"go/token"
	"go/types"
	"sort"
	"strings"

	"golang.org/x/tools/go/ssa"
)

func init() {
	register("C01", PropMeta{
		Title: "Dataset write, close, reopen, read returns exactly what was written",
		Explanation: "Necessary structural conditions of the round trip, each read off the writer and the reader side of the same fact: (C01.1) the datatype registry gives a signed and an unsigned integer of the same width different on-disk descriptions, and every numeric reader that reinterprets stored bits as signed does so under a test of the sign flag; " +
			"(C01.2) the chunk B-tree key the writer stores is the chunk index multiplied by the chunk extent, the inverse of the division the reader applies; (C01.3) every path that puts element bytes into the file first compares the byte count with the dataset's size; " +
			"(C01.4) every type/layout dispatch of a typed read ends in an error for an unrecognised type; (C01.5) after writing the chunk index, the index address is patched into the object header on every success path, with the value WriteToFile returned; " +
			"(C01.6) a copy into a fixed-stride element slot is bounded by the stride.",
		DoesNotDecide: "equality of the values read back with the values written (a statement over all shapes, chunkings and data); correctness of ExtractChunkData / copyChunkToArray index arithmetic; datatype message bytes (C11)",
		Rules: map[string]string{
			"C01.1": "signed/unsigned integer types are distinguishable on disk and readers convert under the sign flag",
			"C01.2": "chunk index key = chunk index x chunk extent (writer) vs key / chunk extent (reader)",
			"C01.3": "element bytes reach the file only after a size comparison with dataSize",
			"C01.4": "typed-read dispatch defaults to an error",
			"C01.5": "chunk index address patched into the header before success, with the address returned by WriteToFile",
			"C01.6": "copies into fixed-stride element slots are bounded by the stride",
			"C01.7": "boundary chunks are expanded to the nominal chunk shape before they are filtered, stored and indexed",
		},
	}, ruleC01)
}

// mustPrecedeE is mustPrecede with additionally discharging edges: a path that crosses an edge for which
// cut(from,to) holds counts as satisfied.
func mustPrecedeE(to ssa.Instruction, pred func(ssa.Instruction) bool, cut func(from, to *ssa.BasicBlock) bool) bool {
	fn := to.Parent()
	b := to.Block()
	for i := instrIndex(to) - 1; i >= 0; i-- {
		if pred(b.Instrs[i]) {
			return true
		}
	}
	barrier := map[*ssa.BasicBlock]bool{}
	for _, blk := range fn.Blocks {
		for _, in := range blk.Instrs {
			if pred(in) {
				barrier[blk] = true
				break
			}
		}
	}
	if b == fn.Blocks[0] {
		return false
	}
	seen := map[*ssa.BasicBlock]bool{}
	work := []*ssa.BasicBlock{b}
	for len(work) > 0 {
		x := work[len(work)-1]
		work = work[:len(work)-1]
		for _, p := range x.Preds {
			if barrier[p] || cut(p, x) || seen[p] {
				continue
			}
			if p == fn.Blocks[0] {
				return false
			}
			seen[p] = true
			work = append(work, p)
		}
	}
	return true
}

func ruleC01(c *Ctx, r *Result) {
	c01registry(c, r)
	c01signReaders(c, r, "C01.1")
	c01chunkKey(c, r)
	c01sizeDiscipline(c, r)
	c01dispatchDefaults(c, r)
	c01indexPatch(c, r)
	c01slotCopies(c, r)
	c01edgeChunks(c, r)
}

// c01edgeChunks: in writeChunkedData every chunk payload that reaches the filter pipeline / the file / the index went through
// expandEdgeChunk with the dataset's nominal chunk dimensions (the reader addresses a chunk with nominal strides).
func c01edgeChunks(c *Ctx, r *Result) {
	fn := c.Fn(r, "hdf5.DatasetWriter.writeChunkedData")
	if fn == nil {
		return
	}
	var expand *ssa.Call
	// recognised by role, not by name: a module function that takes the extracted chunk and the dataset's nominal chunk dimensions
	for _, site := range callsIn(fn) {
		call, ok := site.(*ssa.Call)
		if !ok || call.Call.StaticCallee() == nil || !inModule(fnPkgPath(call.Call.StaticCallee())) {
			continue
		}
		takesChunk, takesNominal := false, false
		for _, a := range call.Call.Args {
			if src, isCall := a.(*ssa.Call); isCall && c.calleeName(src) == "writer.ChunkCoordinator.ExtractChunkData" {
				takesChunk = true
			}
			if valueReadsField(a, "hdf5.DatasetWriter.chunkDims", 0) {
				takesNominal = true
			}
		}
		if takesChunk && takesNominal {
			expand = call
		}
	}
	if expand == nil {
		r.Viol("C01.7", c.Name(fn)+"#edge-chunk-expanded", c.Pos(fn.Pos()), "chunk payloads are no longer expanded to the nominal chunk shape: a clipped boundary chunk cannot be addressed with nominal strides")
		r.Floor("C01.7", 1)
		return
	}
	// input is the extracted chunk, nominal dims come from dw.chunkDims
	r.Hold("C01.7", c.Name(fn)+"#edge-chunk-expanded", c.InstrPos(expand), c.calleeName(expand)+" receives the extracted chunk and the nominal chunk dimensions")
	// the padding is zero: the buffer the clipped rows are copied into is freshly made on every path (or cleared first)
	if ef := expand.Call.StaticCallee(); ef != nil {
		c01zeroPadding(c, r, ef, "C01.7")
	}
	// placement: where a clipped row lands in the nominal-shaped buffer is a function of the NOMINAL extents (and the row
	// counters), where it is taken from is a function of the CLIPPED extents: the two must not be mixed
	if ef := expand.Call.StaticCallee(); ef != nil && len(ef.Params) == len(expand.Call.Args) {
		var actualP, nominalP *ssa.Parameter
		for i, a := range expand.Call.Args {
			if valueReadsField(a, "hdf5.DatasetWriter.chunkDims", 0) {
				nominalP = ef.Params[i]
			} else if src, isCall := a.(*ssa.Call); isCall && c.calleeName(src) == "writer.ChunkCoordinator.GetChunkSize" {
				actualP = ef.Params[i]
			}
		}
		placed := 0
		if actualP != nil && nominalP != nil {
			for _, site := range callsIn(ef) {
				call, ok := site.(*ssa.Call)
				if !ok {
					continue
				}
				if b, isB := call.Call.Value.(*ssa.Builtin); !isB || b.Name() != "copy" {
					continue
				}
				dsl, ok1 := call.Call.Args[0].(*ssa.Slice)
				ssl, ok2 := call.Call.Args[1].(*ssa.Slice)
				if !ok1 || !ok2 {
					continue
				}
				if _, fresh := dsl.X.(*ssa.MakeSlice); !fresh {
					continue
				}
				placed++
				okD := dsl.Low == nil || !dataParams(dsl.Low)[actualP]
				okS := ssl.Low == nil || !dataParams(ssl.Low)[nominalP]
				r.Check(okD, "C01.7", c.Name(ef)+"#row-position-from-nominal-extents", c.InstrPos(call), "the destination offset of a row in the expanded chunk is computed from the nominal chunk extents; the clipped extents ("+actualP.Name()+") do not enter it")
				r.Check(okS, "C01.7", c.Name(ef)+"#row-source-from-clipped-extents", c.InstrPos(call), "the source offset of a row is computed from the clipped extents; the nominal extents ("+nominalP.Name()+") do not enter it")
			}
		}
		if placed == 0 {
			r.Undec("C01.7", c.Name(ef)+"#row-position-from-nominal-extents", c.Pos(ef.Pos()), "row copy into a fresh nominal-shaped buffer not recognised in the expanding helper")
		}
	}
	// consumers: pipeline.Apply / WriteAtAddress / len() for Allocate and the index receive the expanded value (or the filtered value derived from it)
	derives := func(v ssa.Value) bool {
		seen := map[ssa.Value]bool{}
		var walk func(v ssa.Value) bool
		walk = func(v ssa.Value) bool {
			if v == nil || seen[v] {
				return true
			}
			seen[v] = true
			switch x := v.(type) {
			case *ssa.Call:
				if x == expand {
					return true
				}
				if strings.HasSuffix(c.calleeName(x), "FilterPipeline.Apply") {
					return walk(x.Call.Args[len(x.Call.Args)-1])
				}
				return false
			case *ssa.Extract:
				return walk(x.Tuple)
			case *ssa.Phi:
				for _, e := range x.Edges {
					if !walk(e) {
						return false
					}
				}
				return true
			}
			return false
		}
		return walk(v)
	}
	n := 0
	for _, site := range callsIn(fn) {
		name := c.calleeName(site)
		var payload ssa.Value
		switch {
		case strings.HasSuffix(name, "FilterPipeline.Apply"):
			payload = site.Common().Args[len(site.Common().Args)-1]
		case name == "writer.FileWriter.WriteAtAddress":
			payload = site.Common().Args[1]
			if valueReadsField(site.Common().Args[2], "hdf5.DatasetWriter.layoutBTreeOffset", 0) {
				continue // the header patch, not a chunk
			}
		default:
			continue
		}
		n++
		r.Check(derives(payload), "C01.7", c.Name(fn)+"#"+lastSeg(name)+"#receives-nominal-size-chunk", c.InstrPos(site.(ssa.Instruction)), "the chunk bytes handed to "+lastSeg(name)+" are the expanded (nominal-shape) chunk or its filtered form")
	}
	if n < 2 {
		r.Errorf("C01.7: chunk consumers not found in writeChunkedData")
	}
	r.Floor("C01.7", 3)
}

// registryEntries evaluates the composite literal that initialises hdf5.datatypeRegistry: Datatype constant ->
// (handler type, constant field values).
type regEntry struct {
	Name    string
	Handler string
	Fields  []string // constant values in field order ("?" when not constant)
	Pos     token.Pos
}

func (c *Ctx) registryEntries(r *Result) map[string]regEntry {
	out := map[string]regEntry{}
	var pkg *ssa.Package
	for _, p := range c.Prog.AllPackages() {
		if p.Pkg.Path() == modPath {
			pkg = p
		}
	}
	if pkg == nil {
		r.Errorf("root package not found")
		return out
	}
	// constant value -> name for type Datatype
	names := map[int64]string{}
	scope := pkg.Pkg.Scope()
	for _, n := range scope.Names() {
		if k, ok := scope.Lookup(n).(*types.Const); ok && namedShort(k.Type()) == "hdf5.Datatype" {
			if v, ok := constant.Int64Val(k.Val()); ok {
				names[v] = n
			}
		}
	}
	for _, m := range pkg.Members {
		fn, ok := m.(*ssa.Function)
		if !ok || !strings.HasPrefix(fn.Name(), "init") {
			continue
		}
		instrs(fn, func(in ssa.Instruction) {
			mu, ok := in.(*ssa.MapUpdate)
			if !ok || namedShort(mu.Key.Type()) != "hdf5.Datatype" {
				return
			}
			k, ok := constInt(mu.Key)
			if !ok {
				return
			}
			v := stripIface(mu.Value)
			al, ok := v.(*ssa.Alloc)
			if !ok {
				return
			}
			st := derefStruct(al.Type())
			if st == nil {
				return
			}
			e := regEntry{Name: names[k], Handler: namedShort(al.Type()), Pos: mu.Pos(), Fields: make([]string, st.NumFields())}
			for i := range e.Fields {
				e.Fields[i] = "0"
			}
			for _, ref := range *al.Referrers() {
				fa, ok := ref.(*ssa.FieldAddr)
				if !ok {
					continue
				}
				for _, r2 := range *fa.Referrers() {
					if s, ok := r2.(*ssa.Store); ok && s.Addr == ssa.Value(fa) {
						if kc, ok := s.Val.(*ssa.Const); ok && kc.Value != nil {
							e.Fields[fa.Field] = kc.Value.ExactString()
						} else if _, isAlloc := stripIface(s.Val).(*ssa.Alloc); isAlloc {
							e.Fields[fa.Field] = "&{...}"
						} else {
							e.Fields[fa.Field] = "?"
						}
					}
				}
			}
			out[e.Name] = e
		})
	}
	return out
}

func c01registry(c *Ctx, r *Result) {
	reg := c.registryEntries(r)
	if len(reg) < 10 {
		r.Errorf("datatype registry: only %d entries resolved", len(reg))
	}
	for _, w := range []string{"8", "16", "32", "64"} {
		s, okS := reg["Int"+w]
		u, okU := reg["Uint"+w]
		if !okS || !okU {
			r.Errorf("registry has no Int%s/Uint%s pair", w, w)
			continue
		}
		same := s.Handler == u.Handler && strings.Join(s.Fields, ",") == strings.Join(u.Fields, ",")
		r.Check(!same, "C01.1", "hdf5.datatypeRegistry#Int"+w+"~Uint"+w+"#distinguishable", c.Pos(s.Pos),
			"Int"+w+" is described as {"+strings.Join(s.Fields, ",")+"}, Uint"+w+" as {"+strings.Join(u.Fields, ",")+"}: a reader must be able to tell them apart")
		// same class and size (they differ in the sign flag only)
		if len(s.Fields) >= 2 && len(u.Fields) >= 2 {
			r.Check(s.Fields[0] == u.Fields[0] && s.Fields[1] == u.Fields[1] && s.Fields[1] == strconvI(w), "C01.1", "hdf5.datatypeRegistry#Int"+w+"~Uint"+w+"#same-class-and-width", c.Pos(s.Pos),
				"both are fixed-point of "+w+" bits")
		}
	}
	// float types: class differs from the integers, sizes 4 and 8
	f32, ok1 := reg["Float32"]
	f64, ok2 := reg["Float64"]
	i32 := reg["Int32"]
	if ok1 && ok2 && len(f32.Fields) >= 2 && len(f64.Fields) >= 2 {
		r.Check(f32.Fields[0] == f64.Fields[0] && f32.Fields[0] != i32.Fields[0] && f32.Fields[1] == "4" && f64.Fields[1] == "8", "C01.1", "hdf5.datatypeRegistry#Float32~Float64#class-and-width", c.Pos(f32.Pos),
			"floating-point entries share a class distinct from fixed-point and have sizes 4 and 8")
	} else {
		r.Errorf("registry has no Float32/Float64 entries")
	}
	// no two registry entries of scalar handlers share a full description unless they are documented aliases
	type desc struct{ h, f string }
	by := map[desc][]string{}
	for _, e := range reg {
		if e.Handler != "hdf5.basicTypeHandler" {
			continue
		}
		d := desc{e.Handler, strings.Join(e.Fields, ",")}
		by[d] = append(by[d], e.Name)
	}
	for d, ns := range by {
		sort.Strings(ns)
		if len(ns) > 1 {
			r.Viol("C01.1", "hdf5.datatypeRegistry#"+strings.Join(ns, "~")+"#same-description", c.Pos(reg[ns[0]].Pos), "scalar types "+strings.Join(ns, ", ")+" are all written as {"+d.f+"}")
		}
	}
	r.Floor("C01.1", 9)
}

func basicBits(b *types.Basic) int {
	switch b.Kind() {
	case types.Int8, types.Uint8:
		return 8
	case types.Int16, types.Uint16:
		return 16
	case types.Int32, types.Uint32:
		return 32
	case types.Int64, types.Uint64:
		return 64
	}
	return 0
}

func strconvI(bits string) string {
	switch bits {
	case "8":
		return "1"
	case "16":
		return "2"
	case "32":
		return "4"
	case "64":
		return "8"
	}
	return "?"
}

// c01signReaders: in the numeric dataset readers, a conversion that reinterprets an unsigned N-bit load as a
// signed N-bit integer happens only under a test of the datatype's sign flag.
func c01signReaders(c *Ctx, r *Result, rule string) {
	isSignedCall := func(v ssa.Value) bool {
		call, ok := v.(*ssa.Call)
		return ok && c.calleeName(call) == "core.DatatypeMessage.IsSigned"
	}
	var signTest func(fn *ssa.Function, v ssa.Value, depth int) bool
	signTest = func(fn *ssa.Function, v ssa.Value, depth int) bool {
		if isSignedCall(v) {
			return true
		}
		if p, ok := v.(*ssa.Parameter); ok && depth < 3 {
			// a bool parameter: every caller passes the sign flag
			idx := paramIndex(fn, p)
			node := c.CG.Nodes[fn]
			if node == nil || len(node.In) == 0 {
				return false
			}
			for _, e := range node.In {
				if e.Site == nil {
					return false
				}
				args := e.Site.Common().Args
				if idx >= len(args) || !signTest(e.Caller.Func, args[idx], depth+1) {
					return false
				}
			}
			return true
		}
		return false
	}
	n := 0
	for _, name := range []string{"core.convertToFloat64", "hdf5.convertToFloat64", "hdf5.convertBytesToInt32AsFloat64", "hdf5.convertBytesToInt64AsFloat64"} {
		fn := c.Fn(r, name)
		if fn == nil {
			continue
		}
		instrs(fn, func(in ssa.Instruction) {
			cv, ok := in.(*ssa.Convert)
			if !ok {
				return
			}
			from, ok1 := cv.X.Type().Underlying().(*types.Basic)
			to, ok2 := cv.Type().Underlying().(*types.Basic)
			if !ok1 || !ok2 || from.Info()&types.IsUnsigned == 0 || to.Info()&types.IsInteger == 0 || to.Info()&types.IsUnsigned != 0 {
				return
			}
			if basicBits(from) == 0 || basicBits(from) != basicBits(to) {
				return
			}
			// feeds a float conversion?
			toFloat := false
			for _, ref := range *cv.Referrers() {
				if c2, ok := ref.(*ssa.Convert); ok {
					if b, ok := c2.Type().Underlying().(*types.Basic); ok && b.Info()&types.IsFloat != 0 {
						toFloat = true
					}
				}
			}
			if !toFloat {
				return
			}
			n++
			guarded := false
			for _, b := range fn.Blocks {
				ifi, ok := b.Instrs[len(b.Instrs)-1].(*ssa.If)
				if !ok || !signTest(fn, ifi.Cond, 0) {
					continue
				}
				if edgeDominates(b, b.Succs[0], cv.Block()) {
					// and the unsigned arm converts the same load without reinterpretation
					guarded = true
				}
			}
			r.Check(guarded, rule, c.Name(fn)+"#signed-reinterpretation-under-sign-flag", c.InstrPos(cv),
				"stored "+from.Name()+" bits are read as "+to.Name()+" only when the datatype's sign flag is set (otherwise Uint values above the signed maximum come back negative)")
		})
	}
	decodes := c01signWidth(c, r, rule)
	if n < 4 && decodes < 4 {
		r.Errorf(rule+": only %d signed reinterpretation sites and %d fixed-point decode sites found in the numeric readers (expected 4)", n, decodes)
	}
}

// c01signWidth: a stored N-bit integer becomes signed at width N. From every UintN decode in the numeric readers the value
// is followed through conversions, phis and helper parameters to the float conversion; the first conversion to a signed
// integer type on the way must have N bits (uint32 -> uint64 -> int64 reinterprets bit 63, not bit 31: negative int32
// values come back as value + 2^32). Returns the number of decode sites followed.
func c01signWidth(c *Ctx, r *Result, rule string) int {
	decodes := 0
	for _, name := range []string{"core.convertToFloat64", "hdf5.convertToFloat64", "hdf5.convertBytesToInt32AsFloat64", "hdf5.convertBytesToInt64AsFloat64"} {
		fn := c.FnOpt(name)
		if fn == nil {
			continue
		}
		instrs(fn, func(in ssa.Instruction) {
			call, ok := in.(*ssa.Call)
			if !ok {
				return
			}
			cn := c.calleeName(call)
			width := 0
			switch {
			case strings.HasSuffix(cn, ".Uint16"):
				width = 16
			case strings.HasSuffix(cn, ".Uint32"):
				width = 32
			case strings.HasSuffix(cn, ".Uint64"):
				width = 64
			}
			if width == 0 {
				return
			}
			decodes++
			bad := ""
			seen := map[ssa.Value]bool{}
			var walk func(v ssa.Value, depth int)
			walk = func(v ssa.Value, depth int) {
				if seen[v] || depth > 10 || v.Referrers() == nil {
					return
				}
				seen[v] = true
				for _, ref := range *v.Referrers() {
					switch x := ref.(type) {
					case *ssa.Convert:
						b, ok := x.Type().Underlying().(*types.Basic)
						if !ok {
							continue
						}
						switch {
						case b.Info()&types.IsFloat != 0:
							// reached the result unsigned (or already signed): fine
						case b.Info()&types.IsInteger != 0 && b.Info()&types.IsUnsigned == 0:
							if basicBits(b) != width {
								bad = c.InstrPos(x) + " (" + b.Name() + " applied to a " + itoa(width) + "-bit value)"
							}
							// once signed at the right width, widening is value-preserving: stop following
						default:
							walk(x, depth+1)
						}
					case *ssa.Phi:
						walk(x, depth+1)
					case *ssa.Call:
						g := x.Call.StaticCallee()
						if g == nil || g.Blocks == nil || !inModule(fnPkgPath(g)) {
							continue
						}
						for i, a := range x.Call.Args {
							if a == v && i < len(g.Params) {
								walk(g.Params[i], depth+1)
							}
						}
					}
				}
			}
			walk(call, 0)
			r.Check(bad == "", rule, c.Name(fn)+"#signed-at-stored-width#"+itoa(width), c.InstrPos(call), "a stored "+itoa(width)+"-bit integer is reinterpreted as signed at "+itoa(width)+" bits before it is widened "+bad)
		})
	}
	return decodes
}

// c01chunkKey: writer multiplies, reader divides.
func c01chunkKey(c *Ctx, r *Result) {
	w := c.Fn(r, "hdf5.DatasetWriter.writeChunkedData")
	rd := c.Fn(r, "core.ParseBTreeV1Node")
	if w == nil || rd == nil {
		return
	}
	// reader side: key.Scaled[j] = byteOffset / chunkDims[j]
	var chunkDimsParam *ssa.Parameter
	for _, p := range rd.Params {
		if p.Name() == "chunkDims" {
			chunkDimsParam = p
		}
	}
	readerDivides := false
	var divPos ssa.Instruction
	// (the key decoding may live in a helper that ParseBTreeV1Node hands chunkDims to)
	for _, sc := range scopesOf(rd, chunkDimsParam) {
		sc := sc
		instrs(sc.fn, func(in ssa.Instruction) {
			bo, ok := in.(*ssa.BinOp)
			if !ok || bo.Op != token.QUO {
				return
			}
			if ld, ok := isLoad(bo.Y); ok {
				if ia, ok := ld.X.(*ssa.IndexAddr); ok && chunkDimsParam != nil && sc.res(ia.X) == ssa.Value(chunkDimsParam) {
					// result stored into a Scaled element
					for _, ref := range *bo.Referrers() {
						if st, ok := ref.(*ssa.Store); ok {
							if ia2, ok := st.Addr.(*ssa.IndexAddr); ok {
								if l2, ok := isLoad(ia2.X); ok {
									if f, _ := fieldOfAddr(l2.X); f != nil && f.Name() == "Scaled" {
										readerDivides = true
										divPos = in
									}
								}
							}
						}
					}
				}
			}
		})
	}
	if chunkDimsParam == nil {
		r.Errorf("core.ParseBTreeV1Node has no chunkDims parameter")
		return
	}
	if readerDivides {
		r.Hold("C01.2", "core.ParseBTreeV1Node#key-divided-by-chunk-extent", c.InstrPos(divPos), "reader: scaled index = stored key / chunk extent")
	} else {
		r.Undec("C01.2", "core.ParseBTreeV1Node#key-divided-by-chunk-extent", c.Pos(rd.Pos()), "reader no longer divides the stored key by the chunk extent; the writer-side rule has lost its reference")
	}
	// writer side
	n := 0
	for _, site := range callsIn(w) {
		if c.calleeName(site) != "structures.ChunkBTreeWriter.AddChunkWithSize" && c.calleeName(site) != "structures.ChunkBTreeWriter.AddChunk" {
			continue
		}
		n++
		key := site.Common().Args[1]
		ok, why := c01scaledKey(c, scope{fn: w, bind: map[ssa.Value]ssa.Value{}}, key, 0)
		if !readerDivides {
			ok = !ok
			why = "reader does not divide: " + why
		}
		r.Check(ok, "C01.2", c.Name(w)+"#key-is-index-times-chunk-extent", c.InstrPos(site.(ssa.Instruction)), why)
	}
	if n == 0 {
		r.Errorf("C01.2: writeChunkedData no longer calls ChunkBTreeWriter.AddChunk*")
	}
	// the coordinate the key is built from is the one the chunk bytes were extracted for
	for _, site := range callsIn(w) {
		if c.calleeName(site) != "writer.ChunkCoordinator.ExtractChunkData" {
			continue
		}
		coord := site.Common().Args[2]
		src, ok := coord.(*ssa.Call)
		r.Check(ok && c.calleeName(src) == "writer.ChunkCoordinator.GetChunkCoordinate", "C01.2", c.Name(w)+"#extracted-chunk-is-the-keyed-chunk", c.InstrPos(site.(ssa.Instruction)),
			"chunk bytes are extracted for the coordinate returned by GetChunkCoordinate(i)")
	}
	r.Floor("C01.2", 3)
}

// c01scaledKey: key is a fresh slice whose every element store is coord[d] * chunkDims[d] with chunkDims loaded from
// the DatasetWriter (or the coordinator) and coord from GetChunkCoordinate.
func c01scaledKey(c *Ctx, sc scope, key ssa.Value, depth int) (bool, string) {
	key = sc.res(key)
	if call, ok := key.(*ssa.Call); ok {
		// a key-building helper: judge the slice it returns, with its parameters bound to the arguments
		if rv, hs, isH := helperResult(sc, call); isH && depth < 3 && c.calleeName(call) != "writer.ChunkCoordinator.GetChunkCoordinate" {
			return c01scaledKey(c, hs, rv, depth+1)
		}
		return false, "the key passed to the chunk index is the raw result of " + c.calleeName(call) + " (a chunk index, not an element offset)"
	}
	mk, ok := key.(*ssa.MakeSlice)
	if !ok {
		return false, "key is not a freshly built slice"
	}
	stores := 0
	good := true
	why := ""
	for _, ref := range *mk.Referrers() {
		ia, ok := ref.(*ssa.IndexAddr)
		if !ok {
			continue
		}
		for _, r2 := range *ia.Referrers() {
			st, ok := r2.(*ssa.Store)
			if !ok || st.Addr != ssa.Value(ia) {
				continue
			}
			stores++
			mul, ok := st.Val.(*ssa.BinOp)
			if !ok || mul.Op != token.MUL {
				good, why = false, "key element is not a product"
				continue
			}
			fromCoord := func(v ssa.Value) bool {
				ld, ok := isLoad(v)
				if !ok {
					return false
				}
				ia, ok := ld.X.(*ssa.IndexAddr)
				if !ok {
					return false
				}
				call, ok := sc.res(ia.X).(*ssa.Call)
				return ok && c.calleeName(call) == "writer.ChunkCoordinator.GetChunkCoordinate" && ia.Index != nil
			}
			fromDims := func(v ssa.Value) (bool, ssa.Value) {
				ld, ok := isLoad(v)
				if !ok {
					return false, nil
				}
				ia, ok := ld.X.(*ssa.IndexAddr)
				if !ok {
					return false, nil
				}
				l2, ok := isLoad(sc.res(ia.X))
				if !ok {
					return false, nil
				}
				f, _ := fieldOfAddr(l2.X)
				return f != nil && f.Name() == "chunkDims", ia.Index
			}
			x, y := mul.X, mul.Y
			if !fromCoord(x) {
				x, y = y, x
			}
			okD, dIdx := fromDims(y)
			if !fromCoord(x) || !okD {
				good, why = false, "key element is not coord[d] * chunkDims[d]"
				continue
			}
			// same dimension index on all three
			cIdx := x.(*ssa.UnOp).X.(*ssa.IndexAddr).Index
			if cIdx != dIdx || ia.Index != dIdx {
				good, why = false, "key element mixes dimensions"
			}
		}
	}
	if stores == 0 {
		return false, "no element of the key is ever written"
	}
	if !good {
		return false, why
	}
	return true, "every key element is coord[d] * chunkDims[d]"
}

// c01sizeDiscipline: WriteAtAddress of element bytes / writeChunkedData happen only after the byte count was compared
// with dataSize and the unequal edge left with an error.
func c01sizeDiscipline(c *Ctx, r *Result) { sizeDisciplineRule(c, r, "C01.3") }

func sizeDisciplineRule(c *Ctx, r *Result, rule string) {
	for _, name := range []string{"hdf5.DatasetWriter.Write", "hdf5.DatasetWriter.WriteRaw", "hdf5.DatasetWriter.writeChunkedData"} {
		fn := c.Fn(r, name)
		if fn == nil {
			continue
		}
		// size tests: If(len(x) != dw.dataSize) with error exit on the unequal edge
		type test struct {
			blk  *ssa.BasicBlock
			eq   *ssa.BasicBlock
			buf  ssa.Value
			neqE bool
		}
		var tests []test
		for _, b := range fn.Blocks {
			ifi, ok := b.Instrs[len(b.Instrs)-1].(*ssa.If)
			if !ok {
				continue
			}
			bo, ok := ifi.Cond.(*ssa.BinOp)
			if !ok || (bo.Op != token.NEQ && bo.Op != token.EQL) {
				continue
			}
			x, y := bo.X, bo.Y
			if !valueReadsField(y, "hdf5.DatasetWriter.dataSize", 0) {
				x, y = y, x
			}
			if !valueReadsField(y, "hdf5.DatasetWriter.dataSize", 0) {
				continue
			}
			buf := lenOperand(x)
			if buf == nil {
				continue
			}
			eq, ne := b.Succs[1], b.Succs[0]
			if bo.Op == token.EQL {
				eq, ne = ne, eq
			}
			// unequal edge must end in an error return
			errExit := false
			if ret, ok := ne.Instrs[len(ne.Instrs)-1].(*ssa.Return); ok {
				if idx := errResultIndex(fn.Signature); idx >= 0 && !isNilConst(retOperand(ret, idx)) {
					errExit = true
				}
			}
			tests = append(tests, test{b, eq, buf, errExit})
		}
		// a size test may live in a helper: a call f(.., x, ..) whose nil-error edge dominates the write counts when every
		// successful return of f lies behind f's own len(param) == dataSize test
		for _, site := range callsIn(fn) {
			call, isCall := site.(*ssa.Call)
			callee := site.Common().StaticCallee()
			if !isCall || callee == nil || !inModule(fnPkgPath(callee)) || errResultIndex(callee.Signature) < 0 {
				continue
			}
			pi := c01sizeValidatorParam(callee)
			if pi < 0 || pi >= len(call.Call.Args) {
				continue
			}
			// the err == nil edge
			for _, ev := range errValuesOfCall(call) {
				for _, ref := range *ev.Referrers() {
					bo, ok := ref.(*ssa.BinOp)
					if !ok || (bo.Op != token.NEQ && bo.Op != token.EQL) {
						continue
					}
					for _, r2 := range *bo.Referrers() {
						if ifi, ok := r2.(*ssa.If); ok {
							pass := ifi.Block().Succs[1]
							if bo.Op == token.EQL {
								pass = ifi.Block().Succs[0]
							}
							tests = append(tests, test{ifi.Block(), pass, call.Call.Args[pi], true})
						}
					}
				}
			}
		}
		for _, site := range callsIn(fn) {
			n := c.calleeName(site)
			var data ssa.Value
			switch n {
			case "writer.FileWriter.WriteAtAddress":
				data = site.Common().Args[1]
				if valueReadsField(site.Common().Args[2], "hdf5.DatasetWriter.layoutBTreeOffset", 0) {
					continue // the index-address patch (C01.5), not element bytes
				}
			case "hdf5.DatasetWriter.writeChunkedData":
				data = site.Common().Args[1]
			default:
				continue
			}
			in := site.(ssa.Instruction)
			// only whole-dataset payloads: the data argument is a parameter, or the encoded buffer
			if !c01isPayload(fn, data) {
				continue
			}
			ok := false
			for _, t := range tests {
				if t.neqE && sameBufferValue(t.buf, data) && edgeDominates(t.blk, t.eq, in.Block()) {
					ok = true
				}
			}
			r.Check(ok, rule, c.Name(fn)+"#"+lastSeg(n)+"#after-size-check", c.InstrPos(in), "the bytes handed to "+lastSeg(n)+" were compared with the dataset's dataSize and a mismatch returned an error")
		}
	}
	r.Floor(rule, 4)
}

func lastSeg(n string) string {
	if i := strings.LastIndex(n, "."); i >= 0 {
		return n[i+1:]
	}
	return n
}

// lenOperand: v is (a conversion of) len(x) -> x.
func lenOperand(v ssa.Value) ssa.Value {
	for {
		switch x := v.(type) {
		case *ssa.Convert:
			v = x.X
			continue
		case *ssa.Call:
			if b, ok := x.Call.Value.(*ssa.Builtin); ok && b.Name() == "len" {
				return x.Call.Args[0]
			}
		}
		return nil
	}
}

func sameBufferValue(a, b ssa.Value) bool {
	if a == b {
		return true
	}
	// phi of the encoders' results vs the same phi
	return false
}

// c01isPayload: the value is the function's []byte parameter or derives (phi/extract) from encode* calls.
func c01isPayload(fn *ssa.Function, v ssa.Value) bool {
	switch x := v.(type) {
	case *ssa.Parameter:
		return true
	case *ssa.Phi:
		for _, e := range x.Edges {
			if !c01isPayload(fn, e) {
				return false
			}
		}
		return true
	case *ssa.Extract:
		if call, ok := x.Tuple.(*ssa.Call); ok {
			if f := call.Call.StaticCallee(); f != nil && strings.HasPrefix(f.Name(), "encode") {
				return true
			}
		}
	case *ssa.Const:
		return x.IsNil()
	}
	return false
}

// c01dispatchDefaults: in each typed-read dispatcher, the path on which every type predicate is false ends in an error.
func c01dispatchDefaults(c *Ctx, r *Result) {
	isPred := func(v ssa.Value) bool {
		switch x := v.(type) {
		case *ssa.Call:
			n := c.calleeName(x)
			return strings.HasPrefix(n, "core.DatatypeMessage.Is") || strings.HasPrefix(n, "core.DataLayoutMessage.Is")
		case *ssa.BinOp:
			if x.Op != token.EQL {
				return false
			}
			// switch on Class / layout class / size: field == const
			_, k1 := x.Y.(*ssa.Const)
			_, k2 := x.X.(*ssa.Const)
			return k1 || k2
		}
		return false
	}
	for _, name := range []string{
		"core.convertToFloat64", "hdf5.convertToFloat64", "core.parseMemberValue", "core.ReadDatasetFloat64", "core.ReadDatasetStrings", "core.readRawData", "hdf5.DatasetWriter.Write",
	} {
		fn := c.FnOpt(name)
		if fn == nil {
			// optional names: report only the ones present, but the floor below guards against mass disappearance
			continue
		}
		// first predicate-If in dominance order
		var first *ssa.BasicBlock
		for _, b := range fn.DomPreorder() {
			if ifi, ok := b.Instrs[len(b.Instrs)-1].(*ssa.If); ok && isPred(ifi.Cond) {
				if call, isCall := ifi.Cond.(*ssa.Call); isCall || c01switchHead(ifi.Cond) {
					_ = call
					first = b
					break
				}
			}
		}
		if first == nil {
			r.Undec("C01.4", c.Name(fn)+"#dispatch-default-is-error", c.Pos(fn.Pos()), "no type dispatch recognised")
			continue
		}
		b := first
		steps := 0
		for steps < 64 {
			ifi, ok := b.Instrs[len(b.Instrs)-1].(*ssa.If)
			if !ok || !isPred(ifi.Cond) {
				break
			}
			b = b.Succs[1]
			steps++
		}
		// b: the all-false continuation. Every return reachable from it without re-entering the chain must be an error
		// return; in practice b itself returns.
		ok := false
		detail := "the default arm of the dispatch"
		if ret, isRet := b.Instrs[len(b.Instrs)-1].(*ssa.Return); isRet {
			if idx := errResultIndex(fn.Signature); idx >= 0 && !isNilConst(retOperand(ret, idx)) && !mayBeNilShallow(retOperand(ret, idx)) {
				ok = true
			}
			detail += " returns at " + c.InstrPos(ret)
		} else {
			detail += " does not return directly (falls through to shared code)"
		}
		r.Check(ok, "C01.4", c.Name(fn)+"#dispatch-default-is-error", c.InstrPos(b.Instrs[len(b.Instrs)-1]), detail+" after "+itoa(steps)+" type tests; an unrecognised type must be an error, never a value")
	}
	r.Floor("C01.4", 5)
}

func c01switchHead(v ssa.Value) bool {
	bo, ok := v.(*ssa.BinOp)
	if !ok {
		return false
	}
	fs := fieldsReadBy(bo.X)
	for k := range fs {
		if strings.HasSuffix(k, ".Class") || strings.HasSuffix(k, ".Size") {
			return true
		}
	}
	return false
}

// c01indexPatch: the chunk index address reaches the object header.
func c01indexPatch(c *Ctx, r *Result) {
	fn := c.Fn(r, "hdf5.DatasetWriter.writeChunkedData")
	if fn == nil {
		return
	}
	const off = "hdf5.DatasetWriter.layoutBTreeOffset"
	var btreeAddr ssa.Value
	for _, site := range callsIn(fn) {
		if c.calleeName(site) == "structures.ChunkBTreeWriter.WriteToFile" {
			for _, ref := range *site.Value().Referrers() {
				if ex, ok := ref.(*ssa.Extract); ok && ex.Index == 0 {
					btreeAddr = ex
				}
			}
		}
	}
	if btreeAddr == nil {
		r.Errorf("C01.5: writeChunkedData no longer calls ChunkBTreeWriter.WriteToFile")
		return
	}
	isPatch := func(in ssa.Instruction) bool {
		call, ok := in.(*ssa.Call)
		if !ok || c.calleeName(call) != "writer.FileWriter.WriteAtAddress" {
			return false
		}
		return valueReadsField(call.Call.Args[2], off, 0)
	}
	// a guard that may skip the patch: the condition reads nothing but layoutBTreeOffset
	pureGuard := func(from, to *ssa.BasicBlock) bool {
		ifi, ok := from.Instrs[len(from.Instrs)-1].(*ssa.If)
		if !ok {
			return false
		}
		bo, ok := ifi.Cond.(*ssa.BinOp)
		if !ok {
			return false
		}
		// the edge on which the (unsigned) offset is known to be zero: `off > 0`/`off != 0` false, `off == 0`/`off <= 0` true
		var zeroEdge *ssa.BasicBlock
		switch bo.Op {
		case token.GTR, token.NEQ:
			zeroEdge = from.Succs[1]
		case token.EQL, token.LEQ:
			zeroEdge = from.Succs[0]
		default:
			return false
		}
		if zeroEdge != to {
			return false
		}
		k, isK := constInt(bo.Y)
		if !isK || k != 0 {
			return false
		}
		ld, ok := isLoad(bo.X)
		if !ok {
			return false
		}
		f, base := fieldOfAddr(ld.X)
		return f != nil && fieldKey(base.Type(), f) == off
	}
	n := 0
	for _, ret := range successReturns(fn) {
		n++
		ok := mustPrecedeE(ret, isPatch, pureGuard)
		r.Check(ok, "C01.5", c.Name(fn)+"#index-address-patched-before-success", c.InstrPos(ret),
			"every path to this success return writes the new chunk index address at layoutBTreeOffset; the only accepted bypass is `layoutBTreeOffset > 0` being false")
	}
	if n == 0 {
		r.Errorf("C01.5: writeChunkedData has no success return")
	}
	// the patched bytes carry the address WriteToFile returned
	patched := 0
	for _, sc := range scopesOf(fn, btreeAddr) {
		sc := sc
		instrs(sc.fn, func(in ssa.Instruction) {
			call, ok := in.(*ssa.Call)
			if !ok {
				return
			}
			name := c.calleeName(call)
			if !strings.HasSuffix(name, "PutUint64") && !strings.HasSuffix(name, "PutUint32") {
				return
			}
			args := call.Call.Args
			v := sc.res(args[len(args)-1])
			patched++
			r.Check(stripConv(v) == btreeAddr, "C01.5", c.Name(sc.fn)+"#patched-value-is-new-index-address", c.InstrPos(in), "the bytes patched into the layout message encode the address returned by WriteToFile")
		})
	}
	if patched == 0 {
		r.Errorf("C01.5: no PutUint64/PutUint32 of the index address found")
	}
	// dw.dataAddress takes the same value
	for _, fs := range c.DirectFieldStores(fn) {
		if fs.Fn == fn && fs.Key == "hdf5.DatasetWriter.dataAddress" {
			if st, ok := fs.In.(*ssa.Store); ok {
				r.Check(st.Val == btreeAddr, "C01.5", c.Name(fn)+"#dataAddress-is-new-index-address", c.InstrPos(st), "the in-memory dataset address is the address returned by WriteToFile")
			}
		}
	}
	// the offset itself: set by the creator from the header address plus the layout message position
	r.Floor("C01.5", 4)
}

// c01slotCopies: in loops that advance an offset by a fixed stride S per element, copy(buf[offset:...], src) moves at most
// S bytes: either the destination is bounded (high - low <= S) or len(src) <= S on the edge that reaches the copy.
func c01slotCopies(c *Ctx, r *Result) {
	for _, name := range []string{"hdf5.encodeStringData"} {
		fn := c.Fn(r, name)
		if fn == nil {
			continue
		}
		fb := c.FB(fn)
		for _, site := range callsIn(fn) {
			call, ok := site.(*ssa.Call)
			if !ok {
				continue
			}
			b, ok := call.Call.Value.(*ssa.Builtin)
			if !ok || b.Name() != "copy" {
				continue
			}
			dst, ok := call.Call.Args[0].(*ssa.Slice)
			if !ok || dst.Low == nil {
				continue
			}
			phi, ok := dst.Low.(*ssa.Phi)
			if !ok {
				r.Undec("C01.6", c.Name(fn)+"#slot-copy-bounded", c.InstrPos(call), "destination offset is not a loop-carried variable")
				continue
			}
			// stride: phi = phi + S on the back edge
			var stride ssa.Value
			for _, e := range phi.Edges {
				if add, ok := e.(*ssa.BinOp); ok && add.Op == token.ADD {
					if add.X == ssa.Value(phi) {
						stride = add.Y
					} else if add.Y == ssa.Value(phi) {
						stride = add.X
					}
				}
			}
			if stride == nil {
				r.Undec("C01.6", c.Name(fn)+"#slot-copy-bounded", c.InstrPos(call), "no fixed stride found for the destination offset")
				continue
			}
			S := fb.lin(stride)
			src := call.Call.Args[1]
			okSrc := fb.ProveGE0At(S.add(fb.lenOfOperand(src), -1), call)
			okDst := false
			if dst.High != nil {
				okDst = fb.ProveGE0At(S.add(fb.lin(dst.High), -1).add(fb.lin(dst.Low), 1), call)
			}
			r.Check(okSrc || okDst, "C01.6", c.Name(fn)+"#slot-copy-bounded", c.InstrPos(call),
				"copy into the element slot at offset moves at most the stride ("+fb.linString(S)+") bytes: len(src)="+fb.linString(fb.lenOfOperand(src))+"; otherwise a long value spills into the next element")
		}
	}
	r.Floor("C01.6", 2)
}

// ---- additional necessary condition found by the third round of seeded changes ----

func init() {
	reg := registry["C01"]
	reg.Meta.Rules["C01.8"] = "odometer loops over chunk rows carry at the same extents whose product is the number of rows"
	reg.Meta.Rules["C01.9"] = "chunk dimensions in the layout message: written and read at the same width under every superblock version the library writes (shared with C11.6)"
	reg.Rules = append(reg.Rules, c01odometers, func(c *Ctx, r *Result) { c11chunkDimWidth(c, r, "C01.9") })
}

// c01odometers: a counter array stepped like an odometer (idx[i]++; if idx[i] < L[i] { break }; idx[i] = 0) inside a loop that
// runs `rows` times, rows being a product of E[i], must carry at L = E: otherwise the rows are taken from positions of a
// differently shaped box.
func c01odometers(c *Ctx, r *Result) {
	n := 0
	for _, fn := range c.LibFuncs() {
		pk := shortPkg(fnPkgPath(fn))
		if pk != "hdf5" && pk != "writer" && pk != "core" {
			continue
		}
		// carry tests: If( (load idx[i]) + 1 < load L[i] ) where the incremented value is stored back to idx[i]
		for _, b := range fn.Blocks {
			ifi, ok := b.Instrs[len(b.Instrs)-1].(*ssa.If)
			if !ok {
				continue
			}
			cmp, ok := ifi.Cond.(*ssa.BinOp)
			if !ok || cmp.Op != token.LSS {
				continue
			}
			inc, ok := cmp.X.(*ssa.BinOp)
			if !ok || inc.Op != token.ADD {
				// the comparison may re-load idx[i] after the store
				if ld, isLd := isLoad(cmp.X); isLd {
					if ia, isIA := ld.X.(*ssa.IndexAddr); isIA {
						for i := instrIndex(ld) - 1; i >= 0; i-- {
							if st, isSt := ld.Block().Instrs[i].(*ssa.Store); isSt {
								if ia2, ok2 := st.Addr.(*ssa.IndexAddr); ok2 && ia2.X == ia.X && ia2.Index == ia.Index {
									inc, _ = st.Val.(*ssa.BinOp)
									break
								}
							}
						}
					}
				}
				if inc == nil || inc.Op != token.ADD {
					continue
				}
			}
			one, isOne := constInt(inc.Y)
			ldIdx, isLd := isLoad(inc.X)
			if !isOne || one != 1 || !isLd {
				continue
			}
			iaIdx, isIA := ldIdx.X.(*ssa.IndexAddr)
			if !isIA {
				continue
			}
			// stored back?
			stored := false
			for _, ref := range *inc.Referrers() {
				if st, isSt := ref.(*ssa.Store); isSt {
					if ia2, ok2 := st.Addr.(*ssa.IndexAddr); ok2 && ia2.X == iaIdx.X {
						stored = true
					}
				}
			}
			ldL, isLdL := isLoad(cmp.Y)
			if !stored || !isLdL {
				continue
			}
			iaL, isIAL := ldL.X.(*ssa.IndexAddr)
			if !isIAL {
				continue
			}
			// enclosing counted loop: r < rows with rows a running product of E[...]
			E := odometerRowsSource(fn, b)
			if E == nil {
				continue
			}
			n++
			ok = sameSliceValue(iaL.X, E)
			r.Check(ok, "C01.8", c.Name(fn)+"#odometer-carries-at-row-extents", c.InstrPos(ifi), "the row counter wraps at "+sliceName(iaL.X)+"[i] while the number of rows is the product of "+sliceName(E)+"[i]: both must be the same box")
		}
	}
	if n < 1 {
		// no odometer-style loop in the tree: nothing to compare (C01.7 decides whether boundary chunks are expanded at all)
		r.Undec("C01.8", "odometer-loops#none-found", "", "no loop that steps a counter array against an extent array inside a row loop")
	}
}

func sliceName(v ssa.Value) string {
	switch x := v.(type) {
	case *ssa.Parameter:
		return x.Name()
	case *ssa.UnOp:
		if f, _ := fieldOfAddr(x.X); f != nil {
			return f.Name()
		}
	case *ssa.Call:
		if f := x.Call.StaticCallee(); f != nil {
			return f.Name() + "()"
		}
	}
	return v.Name()
}

// odometerRowsSource: blk lies in a loop `for r < rows` where rows = Π E[k] (a phi multiplied by loads of E in another loop);
// returns E.
func odometerRowsSource(fn *ssa.Function, blk *ssa.BasicBlock) ssa.Value {
	for _, h := range fn.Blocks {
		if !h.Dominates(blk) || !reachableFrom(blk, nil)[h] {
			continue
		}
		ifi, ok := h.Instrs[len(h.Instrs)-1].(*ssa.If)
		if !ok {
			continue
		}
		cmp, ok := ifi.Cond.(*ssa.BinOp)
		if !ok || cmp.Op != token.LSS {
			continue
		}
		if _, isPhi := cmp.X.(*ssa.Phi); !isPhi {
			continue
		}
		// rows: a phi (exit value of a product loop) whose back edge is phi * load E[k]
		var find func(v ssa.Value, d int) ssa.Value
		find = func(v ssa.Value, d int) ssa.Value {
			if d > 4 {
				return nil
			}
			switch x := v.(type) {
			case *ssa.Phi:
				for _, e := range x.Edges {
					if mul, ok := e.(*ssa.BinOp); ok && mul.Op == token.MUL {
						for _, opnd := range []ssa.Value{mul.X, mul.Y} {
							if ld, ok := isLoad(opnd); ok {
								if ia, ok := ld.X.(*ssa.IndexAddr); ok {
									return ia.X
								}
							}
						}
					}
				}
				for _, e := range x.Edges {
					if e != v {
						if s := find(e, d+1); s != nil {
							return s
						}
					}
				}
			case *ssa.Convert:
				return find(x.X, d+1)
			}
			return nil
		}
		if E := find(cmp.Y, 0); E != nil {
			return E
		}
	}
	return nil
}

func errValuesOfCall(call *ssa.Call) []ssa.Value {
	vals, _ := errValuesOf(call)
	return vals
}

// c01sizeValidatorParam: index of the []byte parameter p of fn such that every successful return of fn is reached only through
// the equal edge of a comparison len(p) == (something reading DatasetWriter.dataSize); -1 if fn is not such a validator.
func c01sizeValidatorParam(fn *ssa.Function) int {
	if len(fn.Blocks) == 0 {
		return -1
	}
	for pi, p := range fn.Params {
		for _, b := range fn.Blocks {
			ifi, ok := b.Instrs[len(b.Instrs)-1].(*ssa.If)
			if !ok {
				continue
			}
			bo, ok := ifi.Cond.(*ssa.BinOp)
			if !ok || (bo.Op != token.NEQ && bo.Op != token.EQL) {
				continue
			}
			x, y := bo.X, bo.Y
			if !valueReadsField(y, "hdf5.DatasetWriter.dataSize", 0) {
				x, y = y, x
			}
			if !valueReadsField(y, "hdf5.DatasetWriter.dataSize", 0) || lenOperand(x) != ssa.Value(p) {
				continue
			}
			eq := b.Succs[1]
			if bo.Op == token.EQL {
				eq = b.Succs[0]
			}
			all := true
			n := 0
			for _, ret := range returnsOf(fn) {
				if !isSuccessReturn(ret) {
					continue
				}
				n++
				if !edgeDominates(b, eq, ret.Block()) {
					all = false
				}
			}
			if all && n > 0 {
				return pi
			}
		}
	}
	return -1
}

// c01zeroPadding: in the function that expands a boundary chunk, every copy destination is (a slice of) a buffer made in this
// call - a reused buffer still holds the previous chunk where this one has its padding - unless clear() of it dominates the copy.
func c01zeroPadding(c *Ctx, r *Result, fn *ssa.Function, rule string) {
	n := 0
	for _, site := range callsIn(fn) {
		call, ok := site.(*ssa.Call)
		if !ok {
			continue
		}
		b, ok := call.Call.Value.(*ssa.Builtin)
		if !ok || b.Name() != "copy" {
			continue
		}
		n++
		base := call.Call.Args[0]
		for {
			if sl, isSl := base.(*ssa.Slice); isSl {
				base = sl.X
				continue
			}
			break
		}
		fresh := false
		if _, isMk := base.(*ssa.MakeSlice); isMk {
			fresh = true
		}
		if !fresh {
			// cleared before use?
			for _, s2 := range callsIn(fn) {
				if c2, ok := s2.(*ssa.Call); ok {
					if b2, ok := c2.Call.Value.(*ssa.Builtin); ok && b2.Name() == "clear" && instrDominates(c2, call) {
						fresh = true
					}
				}
			}
		}
		r.Check(fresh, rule, c.Name(fn)+"#padding-buffer-is-zeroed", c.InstrPos(call), "the nominal-shape buffer is made (zeroed) in this call; a buffer kept from an earlier chunk carries that chunk's bytes into the padding, which later reads as data when the dataset grows")
	}
	if n == 0 {
		r.Undec(rule, c.Name(fn)+"#padding-buffer-is-zeroed", c.Pos(fn.Pos()), "no row copy found in the expansion function")
	}
}

func init() {
	reg := registry["C01"]
	reg.Meta.Rules["C01.10"] = "each chunk keeps its own key: the chunk index either copies the coordinate slice it is given or is given a slice made for that chunk (one slice shared by all entries leaves every key at the last chunk's offset)"
	reg.Rules = append(reg.Rules, func(c *Ctx, r *Result) {
		n := c.retainedArgsFresh(r, "C01.10", "hdf5", func(n string) bool {
			return strings.HasPrefix(n, "structures.ChunkBTreeWriter.AddChunk")
		}, "the chunk's key coordinates")
		if n == 0 {
			r.Errorf("C01.10: no call of ChunkBTreeWriter.AddChunk* found in the root package")
		}
	})
}
