package main

import (
	"go/constant"
	"go/token"
	"go/types"
	"sort"
	"strings"

	"golang.org/x/tools/go/ssa"
)

func init() {
	register("C06", PropMeta{
		Title: "Reader output on reference-library files equals the reference library's report",
		Explanation: "Structural necessary conditions on the reader, each of which a wrong value or a silently missing member would have to break: (C06.1) element values are decoded with the byte order their datatype declares (never a fixed one) and signed reinterpretation happens under the sign flag (C01.1); " +
			"(C06.2) alignment padding K - x%K is only ever added where x%K != 0 holds (an aligned size gets no padding); (C06.3) on every function reachable from the read API, a failed parse/read of a member is returned, not skipped: error edges that rejoin the normal path are reported per call site; " +
			"(C06.4) a byte buffer that is decoded or returned as dataset content was filled from the file on every path; (C06.5) dispatches on file-provided discriminants (layout class, link type, filter id, object-header and superblock version) end in an error for unknown values; (C06.6) the two decoders of the link message agree (shared with C11.3).",
		DoesNotDecide: "equality of anything the reader returns with the h5dump reference outputs (567 DDL files are not compared: that needs the reader to run); which HDF5 features are decoded correctly",
		Rules: map[string]string{
			"C06.1": "element byte order comes from the datatype",
			"C06.2": "padding K - x%K only under x%K != 0",
			"C06.3": "reader paths do not skip members whose parse/read failed",
			"C06.4": "buffers decoded or returned as data were filled from the file",
			"C06.5": "unknown discriminant values are errors",
			"C06.6": "sibling decoders agree",
		},
	}, ruleC06)
}

func ruleC06(c *Ctx, r *Result) {
	c06byteOrder(c, r)
	c06padding(c, r)
	c06swallowed(c, r)
	c06filled(c, r)
	c06discriminants(c, r)
	c06siblings(c, r)
}

// isByteOrderGlobal: v is a load of encoding/binary.LittleEndian or BigEndian.
func isByteOrderGlobal(v ssa.Value) (string, bool) {
	for {
		switch x := v.(type) {
		case *ssa.MakeInterface:
			v = x.X
			continue
		case *ssa.UnOp:
			if g, ok := x.X.(*ssa.Global); ok && g.Pkg != nil && g.Pkg.Pkg.Path() == "encoding/binary" {
				return g.Name(), true
			}
		}
		return "", false
	}
}

func c06byteOrder(c *Ctx, r *Result) {
	// element decoders: functions that turn stored element bytes into numbers. Discovered by role: the function has a
	// *core.DatatypeMessage at hand (parameter, or a field of its receiver) and converts UintN results into float/int values
	// or passes them to math.FloatNNfrombits.
	n := 0
	for _, fn := range c.LibFuncs() {
		pk := shortPkg(fnPkgPath(fn))
		if pk != "core" && pk != "hdf5" {
			continue
		}
		hasDT := false
		for _, p := range fn.Params {
			if typeShort(p.Type()) == "*core.DatatypeMessage" {
				hasDT = true
			}
			if st := derefStruct(p.Type()); st != nil && namedShort(p.Type()) == "core.Attribute" {
				hasDT = true
			}
		}
		// helpers that receive the byte order as a parameter are checked at their call sites (the argument)
		var sites []*ssa.Call
		instrs(fn, func(in ssa.Instruction) {
			call, ok := in.(*ssa.Call)
			if !ok {
				return
			}
			name := c.calleeName(call)
			if !(strings.HasSuffix(name, ".Uint16") || strings.HasSuffix(name, ".Uint32") || strings.HasSuffix(name, ".Uint64")) {
				return
			}
			// is the result an element value? -> converted to float / signed int, or fed to frombits
			elem := false
			for _, ref := range *call.Referrers() {
				switch x := ref.(type) {
				case *ssa.Convert:
					if b, ok := x.Type().Underlying().(*types.Basic); ok && (b.Info()&types.IsFloat != 0 || (b.Info()&types.IsInteger != 0 && b.Info()&types.IsUnsigned == 0 && basicBits(b) > 0)) {
						elem = true
					}
				case *ssa.Call:
					cn := c.calleeName(x)
					if strings.Contains(cn, "frombits") || strings.Contains(cn, "Frombits") {
						elem = true
					}
				}
			}
			if elem {
				sites = append(sites, call)
			}
		})
		if len(sites) == 0 {
			continue
		}
		for _, call := range sites {
			var recv ssa.Value
			if call.Call.IsInvoke() {
				recv = call.Call.Value
			} else if len(call.Call.Args) > 0 {
				recv = call.Call.Args[0]
			}
			g, fixed := isByteOrderGlobal(recv)
			if !hasDT {
				// metadata decoders (creation order, sizes) use the file's fixed little-endian encoding: not element data
				if fixed {
					continue
				}
			}
			n++
			ok := !fixed
			why := "byte order value is not a fixed global"
			if fixed {
				why = "element bytes are decoded with the fixed binary." + g + " although the datatype declares the byte order"
			} else if p, isParam := recv.(*ssa.Parameter); isParam {
				// every caller passes GetByteOrder()
				idx := paramIndex(fn, p)
				node := c.CG.Nodes[fn]
				if node != nil {
					for _, e := range node.In {
						if e.Site == nil {
							continue
						}
						a := e.Site.Common().Args
						if idx < len(a) {
							if _, fx := isByteOrderGlobal(a[idx]); fx {
								ok = false
								why = "caller " + c.Name(e.Caller.Func) + " passes a fixed byte order"
							}
						}
					}
				}
			}
			r.Check(ok, "C06.1", c.Name(fn)+"#element-byte-order-from-datatype", c.InstrPos(call), why)
		}
	}
	r.Floor("C06.1", 12)
}

func c06padding(c *Ctx, r *Result) {
	n := 0
	for _, fn := range c.LibFuncs() {
		fb := c.FB(fn)
		instrs(fn, func(in ssa.Instruction) {
			sub, ok := in.(*ssa.BinOp)
			if !ok || sub.Op != token.SUB {
				return
			}
			K, ok := constInt(sub.X)
			if !ok || K < 2 {
				return
			}
			rem, ok := sub.Y.(*ssa.BinOp)
			if !ok || rem.Op != token.REM {
				return
			}
			k2, ok := constInt(rem.Y)
			if !ok || k2 != K {
				return
			}
			n++
			// dominated by an edge on which x%K != 0
			guarded := false
			for _, b := range fn.Blocks {
				ifi, isIf := b.Instrs[len(b.Instrs)-1].(*ssa.If)
				if !isIf {
					continue
				}
				cmp, isCmp := ifi.Cond.(*ssa.BinOp)
				if !isCmp || (cmp.Op != token.NEQ && cmp.Op != token.EQL) {
					continue
				}
				z, isZ := constInt(cmp.Y)
				r2, isRem := cmp.X.(*ssa.BinOp)
				if !isZ || z != 0 || !isRem || r2.Op != token.REM {
					continue
				}
				kk, isK := constInt(r2.Y)
				if !isK || kk != K || !fb.lin(r2.X).equal(fb.lin(rem.X)) {
					continue
				}
				arm := b.Succs[0]
				if cmp.Op == token.EQL {
					arm = b.Succs[1]
				}
				if edgeDominates(b, arm, sub.Block()) {
					guarded = true
				}
			}
			// or the result is reduced modulo K afterwards: (K - x%K) % K
			for _, ref := range *sub.Referrers() {
				if m, isM := ref.(*ssa.BinOp); isM && m.Op == token.REM {
					if kk, isK := constInt(m.Y); isK && kk == K {
						guarded = true
					}
				}
			}
			r.Check(guarded, "C06.2", c.Name(fn)+"#padding-only-when-unaligned", c.InstrPos(sub), "padding "+itoa64(K)+" - x%"+itoa64(K)+" is computed only where x%"+itoa64(K)+" != 0 (for an aligned x it would add a whole extra unit)")
		})
	}
	if n < 8 {
		r.Errorf("C06.2: only %d padding computations found (expected at least 8)", n)
	}
	r.Floor("C06.2", 8)
}

func c06swallowed(c *Ctx, r *Result) {
	roots := c.readerRoots(r)
	if len(roots) < 15 {
		r.Errorf("C06.3: only %d read API entry points found", len(roots))
	}
	reach := c.readerSet(r)
	var fns []*ssa.Function
	for f := range reach {
		pk := shortPkg(fnPkgPath(f))
		if pk == "hdf5" || pk == "core" || pk == "structures" || pk == "utils" {
			// the write API is not a reader path even where VTA connects it
			if strings.Contains(c.Name(f), "Writer") || strings.Contains(c.Name(f), "Writable") {
				continue
			}
			fns = append(fns, f)
		}
	}
	sort.Slice(fns, func(i, j int) bool { return c.Name(fns[i]) < c.Name(fns[j]) })
	n := 0
	for _, s := range c.ErrSites(fns) {
		if infallibleCallee(s.Callee) {
			continue
		}
		// members: parse / read / load of something that belongs to the file's content
		lc := strings.ToLower(lastSeg(s.Callee))
		member := hasPrefixAny(lc, "parse", "read", "load", "collect", "get", "find", "apply", "decode", "extract", "copy") || strings.HasSuffix(s.Callee, ".ReadAt")
		if !member {
			continue
		}
		n++
		cons := c.Name(s.Caller) + "#" + s.Callee
		switch s.Kind {
		case "swallowed", "converted":
			if reason, ok := exceptionFor("C17", "C17.2", cons+"#"+s.Kind); ok && !strings.Contains(reason, "C06.3") {
				r.Except("C06.3", cons+"#"+s.Kind, c.InstrPos(s.Call), "same site as C17.2: "+reason)
				continue
			}
			if reason, ok := c.nameSearchSkip(s); ok {
				r.Except("C06.3", cons+"#"+s.Kind, c.InstrPos(s.Call), "same site as C17.2: "+reason)
				continue
			}
			r.Viol("C06.3", cons+"#"+s.Kind, c.InstrPos(s.Call), s.Detail)
		case ErrPropagated, ErrEOFTol:
			r.Hold("C06.3", cons+"#"+s.Kind, c.InstrPos(s.Call), "")
		}
	}
	if n < 100 {
		r.Errorf("C06.3: only %d member parse/read call sites on reader paths", n)
	}
	r.Floor("C06.3", 100)
}

// c06filled: []byte buffers allocated here and then decoded / returned as content must have been written from the file.
func c06filled(c *Ctx, r *Result) {
	n := 0
	for _, fn := range c.LibFuncs() {
		pk := shortPkg(fnPkgPath(fn))
		if pk != "core" {
			continue
		}
		ln := strings.ToLower(fn.Name())
		if !(strings.HasPrefix(ln, "read") || strings.HasPrefix(ln, "load")) || strings.Contains(ln, "chunked") {
			continue
		}
		instrs(fn, func(in ssa.Instruction) {
			mk, ok := in.(*ssa.MakeSlice)
			if !ok {
				return
			}
			sl, ok := mk.Type().Underlying().(*types.Slice)
			if !ok {
				return
			}
			if b, ok := sl.Elem().Underlying().(*types.Basic); !ok || b.Kind() != types.Uint8 {
				return
			}
			// zero-length / constant tiny scratch buffers are not content
			if k, ok := constInt(mk.Len); ok && k <= 16 {
				return
			}
			// consumption points: returned on success, or handed to a decoder of the module
			var uses []ssa.Instruction
			fill := func(x ssa.Instruction) bool {
				call, ok := x.(*ssa.Call)
				if !ok {
					return false
				}
				name := ""
				if call.Call.IsInvoke() {
					name = call.Call.Method.Name()
				} else if f := call.Call.StaticCallee(); f != nil {
					name = f.Name()
				} else if b, ok := call.Call.Value.(*ssa.Builtin); ok {
					name = b.Name()
				}
				if name != "ReadAt" && name != "ReadFull" && name != "Read" && name != "copy" {
					return false
				}
				for i, a := range call.Call.Args {
					if name == "copy" && i != 0 {
						continue
					}
					if a == ssa.Value(mk) {
						return true
					}
					if s2, ok := a.(*ssa.Slice); ok && s2.X == ssa.Value(mk) {
						return true
					}
				}
				return false
			}
			filledAnywhere := false
			instrs(fn, func(x ssa.Instruction) {
				if fill(x) {
					filledAnywhere = true
				}
			})
			if !filledAnywhere {
				return // a buffer that is built up element by element (not a read target): other rules
			}
			for _, ref := range *mk.Referrers() {
				switch x := ref.(type) {
				case *ssa.Return:
					if isSuccessReturn(x) {
						uses = append(uses, x)
					}
				case *ssa.Call:
					if f := x.Call.StaticCallee(); f != nil && inModule(fnPkgPath(f)) && !fill(x) {
						uses = append(uses, x)
					}
				case *ssa.Phi:
					// the buffer flows on through a join: it must have been filled by the end of the block it comes from
					consumed := false
					for _, r2 := range *x.Referrers() {
						if ret, ok := r2.(*ssa.Return); ok && isSuccessReturn(ret) {
							consumed = true
						}
						if call, ok := r2.(*ssa.Call); ok {
							if f := call.Call.StaticCallee(); f != nil && inModule(fnPkgPath(f)) {
								consumed = true
							}
						}
					}
					if consumed {
						for i, e := range x.Edges {
							if e == ssa.Value(mk) {
								p := x.Block().Preds[i]
								uses = append(uses, p.Instrs[len(p.Instrs)-1])
							}
						}
					}
				}
			}
			for _, u := range uses {
				n++
				ok := mustPrecede(u, fill)
				r.Check(ok, "C06.4", c.Name(fn)+"#content-buffer-filled-before-use", c.InstrPos(u), "the buffer allocated at "+c.InstrPos(mk)+" is read into from the file on every path before it is decoded/returned (otherwise zeros are reported as data)")
			}
		})
	}
	if n < 3 {
		r.Errorf("C06.4: only %d content-buffer uses found", n)
	}
	r.Floor("C06.4", 3)
}

func c06discriminants(c *Ctx, r *Result) {
	type disc struct {
		fn    string
		field string // field compared against constants ("" = Is* predicate chain)
	}
	for _, d := range []disc{
		{"core.parseLayoutV3", "Class"},
		{"core.parseLinkValue", "Type"},
		{"core.applyFilter", "ID"},
		{"core.ReadObjectHeader", "Version"},
		{"core.ParseDataLayoutMessage", "version"},
		{"core.ReadDatasetFloat64", ""},
		{"core.ReadDatasetStrings", ""},
		{"hdf5.Dataset.dispatchHyperslabReader", ""},
	} {
		fn := c.Fn(r, d.fn)
		if fn == nil {
			continue
		}
		ok, detail := defaultArmIsError(c, fn, d.field)
		if !ok && detail == "no dispatch recognised" {
			r.ViolMissing(c, fn, "C06.5", d.fn+"#unknown-"+firstNonEmpty(strings.ToLower(d.field), "kind")+"-is-error", c.Pos(fn.Pos()), detail)
			continue
		}
		r.Check(ok, "C06.5", d.fn+"#unknown-"+firstNonEmpty(strings.ToLower(d.field), "kind")+"-is-error", c.Pos(fn.Pos()), detail)
	}
	r.Floor("C06.5", 7)
}

// defaultArmIsError: follow the false edges of the dispatch chain (EQL tests of the field against constants, or Is*
// predicate calls); the all-false continuation must return a non-nil error.
func defaultArmIsError(c *Ctx, fn *ssa.Function, field string) (bool, string) {
	isTest := func(v ssa.Value) bool {
		switch x := v.(type) {
		case *ssa.Call:
			if field != "" {
				return false
			}
			n := c.calleeName(x)
			return strings.HasPrefix(n, "core.DatatypeMessage.Is") || strings.HasPrefix(n, "core.DataLayoutMessage.Is")
		case *ssa.BinOp:
			if field == "" || x.Op != token.EQL {
				return false
			}
			if _, isK := constInt(x.Y); !isK {
				return false
			}
			for f := range fieldsReadBy(x.X) {
				if strings.HasSuffix(f, "."+field) {
					return true
				}
			}
			if fld, ok := x.X.(*ssa.Field); ok {
				if f, _ := fieldOfAddr(fld); f != nil && f.Name() == field {
					return true
				}
			}
			// a local named like the field (version := data[0])
			if ld, ok := isLoad(x.X); ok {
				if ia, ok := ld.X.(*ssa.IndexAddr); ok {
					if _, isK := constInt(ia.Index); isK && strings.ToLower(field) == "version" {
						return true
					}
				}
			}
		}
		return false
	}
	var first *ssa.BasicBlock
	// the LAST chain in dominance order that has at least two tests is the dispatch (earlier single tests are guards)
	var chains [][]*ssa.BasicBlock
	seen := map[*ssa.BasicBlock]bool{}
	for _, b := range fn.DomPreorder() {
		if seen[b] {
			continue
		}
		ifi, ok := b.Instrs[len(b.Instrs)-1].(*ssa.If)
		if !ok || !isTest(ifi.Cond) {
			continue
		}
		var chain []*ssa.BasicBlock
		x := b
		for {
			ifx, ok := x.Instrs[len(x.Instrs)-1].(*ssa.If)
			if !ok || !isTest(ifx.Cond) || seen[x] {
				break
			}
			seen[x] = true
			chain = append(chain, x)
			x = x.Succs[1]
		}
		chains = append(chains, chain)
	}
	var best []*ssa.BasicBlock
	for _, ch := range chains {
		if len(ch) > len(best) {
			best = ch
		}
	}
	if len(best) == 0 {
		return false, "no dispatch recognised"
	}
	first = best[0]
	_ = first
	last := best[len(best)-1].Succs[1]
	ret, isRet := last.Instrs[len(last.Instrs)-1].(*ssa.Return)
	if !isRet {
		return false, "after " + itoa(len(best)) + " tests the default arm falls through to shared code instead of returning an error"
	}
	idx := errResultIndex(fn.Signature)
	if idx < 0 || isNilConst(retOperand(ret, idx)) || mayBeNilShallow(retOperand(ret, idx)) {
		return false, "the default arm returns without an error at " + c.InstrPos(ret)
	}
	return true, itoa(len(best)) + " known values; anything else returns an error at " + c.InstrPos(ret)
}

func c06siblings(c *Ctx, r *Result) {
	// the second link-message decoder (internal/structures) against the first (internal/core): same optional-field sequence
	a, b := c.Fn(r, "core.parseLinkMessageHeader"), c.Fn(r, "structures.ParseLinkMessage")
	if a == nil || b == nil {
		return
	}
	ga, gb := c.guardSequence(a, nil), c.guardSequence(b, nil)
	ok := len(ga) > 0 && len(gb) >= len(ga)
	for i := 0; ok && i < len(ga); i++ {
		if ga[i].Bit != gb[i].Bit || (ga[i].Width != gb[i].Width && ga[i].Width != 0 && gb[i].Width != 0) {
			ok = false
		}
	}
	r.Check(ok, "C06.6", "core.parseLinkMessageHeader~structures.ParseLinkMessage#same-optional-fields", c.Pos(b.Pos()), "core: "+guardSig(ga)+"; structures: "+guardSig(gb))
	// the two numeric conversion routines (full read / partial read) agree on type tests (C09.2) - referenced, not repeated
	r.Floor("C06.6", 1)
}

// ---- additional necessary conditions found by the third round of seeded changes ----

func init() {
	reg := registry["C06"]
	reg.Meta.Rules["C06.7"] = "memoisation keys are complete: what is stored in a cache depends only on what the key is built from (an object cached by address must not carry the link name it was first reached by)"
	reg.Meta.Rules["C06.8"] = "the full-read assembler copies every chunk the index lists: an iteration of its chunk loop ends in the copy or in an error, or skips a chunk that provably starts beyond the extent"
	reg.Rules = append(reg.Rules, c06memoKeys, c06everyChunkCopied)
}

// paramsFlowingInto: parameters of fn whose value reaches v through conversions, arithmetic, phis, composite literals
// (stores into the fresh object v points to) and calls (conservatively: every argument flows into the result).
func paramsFlowingInto(fn *ssa.Function, v ssa.Value) map[*ssa.Parameter]bool {
	out := map[*ssa.Parameter]bool{}
	seen := map[ssa.Value]bool{}
	var walk func(v ssa.Value, d int)
	walk = func(v ssa.Value, d int) {
		if v == nil || seen[v] || d > 14 {
			return
		}
		seen[v] = true
		switch x := v.(type) {
		case *ssa.Parameter:
			out[x] = true
		case *ssa.Convert:
			walk(x.X, d+1)
		case *ssa.ChangeType:
			walk(x.X, d+1)
		case *ssa.ChangeInterface:
			walk(x.X, d+1)
		case *ssa.MakeInterface:
			walk(x.X, d+1)
		case *ssa.BinOp:
			walk(x.X, d+1)
			walk(x.Y, d+1)
		case *ssa.UnOp:
			walk(x.X, d+1)
		case *ssa.Phi:
			for _, e := range x.Edges {
				walk(e, d+1)
			}
		case *ssa.Extract:
			walk(x.Tuple, d+1)
		case *ssa.Call:
			for _, a := range x.Call.Args {
				walk(a, d+1)
			}
			if !x.Call.IsInvoke() {
				if _, isFn := x.Call.Value.(*ssa.Function); !isFn {
					walk(x.Call.Value, d+1)
				}
			} else {
				walk(x.Call.Value, d+1)
			}
		case *ssa.Alloc:
			// fresh object: what is stored into its fields
			for _, ref := range *x.Referrers() {
				if fa, ok := ref.(*ssa.FieldAddr); ok {
					for _, r2 := range *fa.Referrers() {
						if st, ok := r2.(*ssa.Store); ok && st.Addr == ssa.Value(fa) {
							walk(st.Val, d+1)
						}
					}
				}
				if st, ok := ref.(*ssa.Store); ok && st.Addr == ssa.Value(x) {
					walk(st.Val, d+1)
				}
			}
		case *ssa.FieldAddr:
			walk(x.X, d+1)
		case *ssa.Field:
			walk(x.X, d+1)
		case *ssa.TypeAssert:
			walk(x.X, d+1)
		}
	}
	walk(v, 0)
	return out
}

func c06memoKeys(c *Ctx, r *Result) { memoKeyRule(c, r, "C06.7") }

// memoKeyRule: every map-valued cache of the root package is keyed by everything its values are built from.
func memoKeyRule(c *Ctx, r *Result, rule string) {
	n := 0
	for _, fn := range c.LibFuncs() {
		if shortPkg(fnPkgPath(fn)) != "hdf5" {
			continue
		}
		instrs(fn, func(in ssa.Instruction) {
			mu, ok := in.(*ssa.MapUpdate)
			if !ok {
				return
			}
			k, _ := fieldLoadKey(mu.Map)
			if k == "" {
				return
			}
			n++
			keyP := paramsFlowingInto(fn, mu.Key)
			valP := paramsFlowingInto(fn, mu.Value)
			var missing []string
			for p := range valP {
				if keyP[p] {
					continue
				}
				// context parameters (the file/writer the cache lives in, readers, superblocks) are not part of the identity
				t := typeShort(p.Type())
				if p == fn.Params[0] && fn.Signature.Recv() != nil {
					continue
				}
				if strings.HasPrefix(t, "*hdf5.File") || strings.Contains(t, "Superblock") || strings.Contains(t, "io.Reader") || strings.Contains(t, "context.") {
					continue
				}
				missing = append(missing, p.Name())
			}
			sort.Strings(missing)
			r.Check(len(missing) == 0, rule, c.Name(fn)+"#"+k+"#key-covers-value", c.InstrPos(mu), "the value stored in "+k+" is built from parameter(s) "+strings.Join(missing, ", ")+" that the key does not contain: a later look-up with the same key but a different "+strings.Join(missing, "/")+" gets the first caller's object")
		})
	}
	if n < 1 {
		r.Errorf(rule + ": no map-valued cache or registry update found in package hdf5")
	}
	r.Floor(rule, 1)
}

func c06everyChunkCopied(c *Ctx, r *Result) { everyChunkCopiedRule(c, r, "C06.8") }

func everyChunkCopiedRule(c *Ctx, r *Result, rule string) {
	fn := c.Fn(r, "core.readChunkedData")
	if fn == nil {
		return
	}
	var copyCall *ssa.Call
	for _, site := range callsIn(fn) {
		if c.calleeName(site) == "core.copyChunkToArray" {
			copyCall, _ = site.(*ssa.Call)
		}
	}
	if copyCall == nil {
		r.Errorf(rule + ": readChunkedData no longer calls copyChunkToArray")
		return
	}
	bad, n, found := c.loopSkipsJustified(fn, copyCall.Block())
	if !found {
		r.Errorf(rule + ": chunk loop not found")
		return
	}
	if n == 0 {
		r.Errorf(rule + ": no back edge of the chunk loop found")
		return
	}
	r.Check(bad == "", rule, c.Name(fn)+"#every-listed-chunk-copied", firstNonEmpty(bad, c.InstrPos(copyCall)), "every iteration of the chunk loop reaches copyChunkToArray (or returns an error); a chunk may only be skipped where scaled*chunkSize >= dims is established (a partial boundary chunk starts inside the extent and holds data)")
	r.Floor(rule, 1)
}

// naturalLoop: the blocks of the natural loop(s) with header h (h plus every block that reaches a back-edge source without
// passing through h).
func naturalLoop(h *ssa.BasicBlock) map[*ssa.BasicBlock]bool {
	loop := map[*ssa.BasicBlock]bool{h: true}
	var work []*ssa.BasicBlock
	for _, p := range h.Preds {
		if h.Dominates(p) && !loop[p] {
			loop[p] = true
			work = append(work, p)
		}
	}
	for len(work) > 0 {
		x := work[len(work)-1]
		work = work[:len(work)-1]
		for _, p := range x.Preds {
			if !loop[p] {
				loop[p] = true
				work = append(work, p)
			}
		}
	}
	return loop
}

func isBeyondExtentFact(f polyFact) bool {
	return f.Rel == ">=0" && (f.P.equal(P("chunksize*scaled", 1, "dims", -1)) || f.P.equal(P("chunksize*scaled", 1, "dimensions", -1)))
}

// beyondExtentEdge: on the edge from->to it is established that the chunk starts at or beyond the extent in some dimension
// (scaled*chunkSize - dims >= 0), by a dominating test or by a bool helper that returns true only where that holds.
func (c *Ctx) beyondExtentEdge(env *polyEnv, from, to *ssa.BasicBlock) bool {
	for _, f := range env.factsOnEdge(from, to) {
		if isBeyondExtentFact(f) {
			return true
		}
	}
	// dominating If blocks whose condition is a helper call
	for _, b := range env.fn.Blocks {
		ifi, ok := b.Instrs[len(b.Instrs)-1].(*ssa.If)
		if !ok || b.Succs[0] == b.Succs[1] {
			continue
		}
		var onTrue *ssa.BasicBlock
		cond := ifi.Cond
		pol := true
		for {
			if u, ok := cond.(*ssa.UnOp); ok && u.Op == token.NOT {
				cond, pol = u.X, !pol
				continue
			}
			break
		}
		call, ok := cond.(*ssa.Call)
		if !ok {
			continue
		}
		onTrue = b.Succs[0]
		if !pol {
			onTrue = b.Succs[1]
		}
		if !(b == from && onTrue == to) && !edgeDominates(b, onTrue, from) {
			continue
		}
		if c.helperTrueMeansBeyondExtent(env, call) {
			return true
		}
	}
	return false
}

// helperTrueMeansBeyondExtent: call is a static call of a module function with a bool result, every `return true` of which is
// dominated by the fact scaled*chunkSize - dims >= 0 read in the caller's terms (parameters renamed to the arguments).
func (c *Ctx) helperTrueMeansBeyondExtent(env *polyEnv, call *ssa.Call) bool {
	h := call.Call.StaticCallee()
	if h == nil || h.Blocks == nil || !inModule(fnPkgPath(h)) || len(h.Params) != len(call.Call.Args) || h.Signature.Results().Len() != 1 {
		return false
	}
	henv := &polyEnv{c: c, fn: h, rename: map[string]string{}}
	for i, a := range call.Call.Args {
		name := env.baseName(a)
		if name == "" {
			if ld, ok := isLoad(a); ok {
				name = env.baseName(ld)
			}
		}
		henv.rename[normName(h.Params[i].Name())] = name
	}
	n := 0
	for _, ret := range returnsOf(h) {
		k, ok := ret.Results[0].(*ssa.Const)
		if !ok {
			return false // computed result: not summarised
		}
		if !constant.BoolVal(k.Value) {
			continue
		}
		n++
		ok2 := false
		for _, f := range henv.factsAt(ret.Block()) {
			if isBeyondExtentFact(f) {
				ok2 = true
			}
		}
		if !ok2 {
			return false
		}
	}
	return n > 0
}

// loopSkipsJustified: in the outermost... innermost loop of fn that contains the block `sink` (where one listed chunk is
// consumed), every back edge either lies behind the sink or skips the chunk on an edge that establishes "starts at or
// beyond the extent". Returns the position of an unjustified skip, the number of back edges, and whether the loop was found.
func (c *Ctx) loopSkipsJustified(fn *ssa.Function, sink *ssa.BasicBlock) (string, int, bool) {
	var hdr *ssa.BasicBlock
	for _, b := range fn.Blocks {
		isHeader := false
		for _, p := range b.Preds {
			if b.Dominates(p) {
				isHeader = true // back edge p -> b
			}
		}
		if isHeader && naturalLoop(b)[sink] {
			if hdr == nil || hdr.Dominates(b) {
				hdr = b
			}
		}
	}
	if hdr == nil {
		return "", 0, false
	}
	env := &polyEnv{c: c, fn: fn}
	bad := ""
	n := 0
	loop := naturalLoop(hdr)
	for _, b := range fn.Blocks {
		if !loop[b] || b == hdr {
			continue
		}
		for _, s := range b.Succs {
			if s != hdr {
				continue
			}
			n++
			// a back edge b -> hdr: either the sink dominates b (normal end of the iteration) or this is a skip
			if sink.Dominates(b) {
				continue
			}
			if !c.beyondExtentEdge(env, b, hdr) {
				bad = c.InstrPos(b.Instrs[len(b.Instrs)-1])
			}
		}
	}
	return bad, n, true
}

func init() {
	reg := registry["C06"]
	reg.Meta.Rules["C06.9"] = "integer elements are read with the signedness the datatype declares: in the numeric dataset readers a stored N-bit value is reinterpreted as signed only under the datatype's sign flag, and at N bits (shared with C01.1; an unsigned 64-bit value >= 2^63 read through int64 comes back negative)"
	reg.Rules = append(reg.Rules, func(c *Ctx, r *Result) { c01signReaders(c, r, "C06.9") })
}
