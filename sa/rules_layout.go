package main

import (
	"fmt"
	"sort"
	"strings"

	"go/token"
	"go/types"

	"golang.org/x/tools/go/ssa"
)

// Field layout agreement between the function that serialises a structure and the functions that parse it.
//
// Writer side: a field F of the structure is put into the buffer at offset o with width w when the function contains
//   PutUintN(buf[o:..], F)            w = N/8
//   buf[o] = F (or byte(F))           w = 1
//   helper(buf[o:..], F, width, ..)   w = the width argument (module helpers writeUint64 / writeAddressToBytes ...), symbolic
// Reader side: F is taken from offset o with width w when a store to field F of the structure being built has the value
//   UintN(buf[o:..])                  w = N/8
//   buf[o]                            w = 1
//   helper(buf[o:..], width, ..)      w = the width argument
// Offsets are linear forms over the same symbols on both sides (constants, sb.OffsetSize, sb.LengthSize). For every field
// name found on both sides offset and width are the same. A swapped pair of fields, a two-byte count read as one byte, a field
// written with the other field's width all show as a disagreement on a named field.

type layoutEntry struct {
	off   string
	width string
	pos   string
}

// layoutAll: like layoutOf for a parser, but keeps every store of a field (a parser that serves several versions stores a
// field once per version).
func (c *Ctx) layoutAll(fn *ssa.Function) map[string][]layoutEntry {
	all := map[string][]layoutEntry{}
	layoutCollect = func(f string, e layoutEntry) { all[f] = append(all[f], e) }
	c.layoutOf(fn, false)
	layoutCollect = nil
	return all
}

var layoutCollect func(string, layoutEntry)

func (c *Ctx) layoutOf(fn *ssa.Function, writer bool) map[string]layoutEntry {
	out := map[string]layoutEntry{}
	if fn == nil || fn.Blocks == nil {
		return out
	}
	fb := c.FB(fn)
	offOf := func(v ssa.Value) (string, bool) {
		switch x := v.(type) {
		case *ssa.Slice:
			if inner, deeper := x.X.(*ssa.Slice); deeper && inner.Low != nil {
				return "", false
			}
			if x.Low == nil {
				return "+0", true
			}
			l := fb.lin(x.Low)
			for sym := range l.T {
				if _, isPhi := sym.(*ssa.Phi); isPhi {
					return "", false // a cursor carried round a loop: not a fixed place in the structure
				}
			}
			return normSyms(fb.linString(l)), true
		}
		return "", false
	}
	widthOfName := func(n string) string {
		switch {
		case strings.HasSuffix(n, "Uint16"):
			return "2"
		case strings.HasSuffix(n, "Uint32"):
			return "4"
		case strings.HasSuffix(n, "Uint64"):
			return "8"
		}
		return ""
	}
	fieldName := func(v ssa.Value) string {
		v = stripConv(v)
		if k, _ := fieldLoadKey(v); k != "" {
			return lastSeg(k)
		}
		if f, ok := v.(*ssa.Field); ok {
			if st, isSt := f.X.Type().Underlying().(*types.Struct); isSt {
				return st.Field(f.Field).Name()
			}
		}
		return ""
	}
	callName := func(com *ssa.CallCommon) string {
		if com.IsInvoke() {
			return com.Method.Name()
		}
		if f := com.StaticCallee(); f != nil {
			return f.Name()
		}
		return ""
	}
	if writer {
		instrs(fn, func(in ssa.Instruction) {
			switch x := in.(type) {
			case *ssa.Call:
				com := x.Common()
				name := callName(com)
				args := com.Args
				if strings.HasPrefix(name, "PutUint") && len(args) >= 2 {
					if off, ok := offOf(args[len(args)-2]); ok {
						if f := fieldName(args[len(args)-1]); f != "" {
							out[f] = layoutEntry{off, widthOfName(name), c.InstrPos(in)}
						}
					}
					return
				}
				// module helper (dst, value, width, ...)
				if g := com.StaticCallee(); g != nil && inModule(fnPkgPath(g)) && len(args) >= 3 {
					if off, ok := offOf(args[0]); ok {
						if f := fieldName(args[1]); f != "" && isIntType(args[2].Type()) {
							out[f] = layoutEntry{off, normSyms(fb.linString(fb.lin(args[2]))), c.InstrPos(in)}
						}
					}
				}
			case *ssa.Store:
				ia, ok := x.Addr.(*ssa.IndexAddr)
				if !ok {
					return
				}
				if b, isB := x.Val.Type().Underlying().(*types.Basic); !isB || b.Kind() != types.Uint8 {
					return
				}
				if f := fieldName(x.Val); f != "" {
					out[f] = layoutEntry{normSyms(fb.linString(fb.lin(ia.Index))), "1", c.InstrPos(in)}
				}
			}
		})
		return out
	}
	var curBlk *ssa.BasicBlock
	putR := func(f string, e layoutEntry) {
		out[f] = e
		if layoutCollect != nil {
			layoutCollect(f, e)
		}
		if layoutCollectBlk != nil {
			layoutCollectBlk(f, e, curBlk)
		}
	}
	instrs(fn, func(in ssa.Instruction) {
		st, ok := in.(*ssa.Store)
		if !ok {
			return
		}
		fa, ok := st.Addr.(*ssa.FieldAddr)
		if !ok {
			return
		}
		fld, _ := fieldOfAddr(fa)
		if fld == nil {
			return
		}
		curBlk = st.Block()
		v := stripConv(st.Val)
		// F, err = readValue(pos, width): a local helper (closure) that takes the position and the width
		if ex, isEx := v.(*ssa.Extract); isEx && ex.Index == 0 {
			if call, isCall := ex.Tuple.(*ssa.Call); isCall && len(call.Call.Args) == 2 && isIntType(call.Call.Args[0].Type()) && isIntType(call.Call.Args[1].Type()) {
				if _, isClosure := call.Call.Value.(*ssa.MakeClosure); isClosure || call.Call.StaticCallee() != nil && call.Call.StaticCallee().Parent() != nil {
					putR(fld.Name(), layoutEntry{normSyms(fb.linString(fb.lin(call.Call.Args[0]))), normSyms(fb.linString(fb.lin(call.Call.Args[1]))), c.InstrPos(in)})
					return
				}
			}
		}
		switch x := v.(type) {
		case *ssa.Call:
			com := x.Common()
			name := callName(com)
			args := com.Args
			if strings.HasPrefix(name, "Uint") && len(args) >= 1 {
				if off, ok := offOf(args[len(args)-1]); ok {
					putR(fld.Name(), layoutEntry{off, widthOfName(name), c.InstrPos(in)})
				}
				return
			}
			if g := com.StaticCallee(); g != nil && inModule(fnPkgPath(g)) && len(args) >= 2 {
				if off, ok := offOf(args[0]); ok && isIntType(args[1].Type()) {
					putR(fld.Name(), layoutEntry{off, normSyms(fb.linString(fb.lin(args[1]))), c.InstrPos(in)})
				}
			}
		case *ssa.UnOp:
			if ia, isIA := x.X.(*ssa.IndexAddr); isIA && x.Op == token.MUL {
				if b, isB := x.Type().Underlying().(*types.Basic); isB && b.Kind() == types.Uint8 {
					putR(fld.Name(), layoutEntry{normSyms(fb.linString(fb.lin(ia.Index))), "1", c.InstrPos(in)})
				}
			}
		}
	})
	return out
}

// normSyms: linear forms of two functions name the superblock fields alike (sb.OffsetSize); keep the field part only.
func normSyms(s string) string {
	// split into signed terms
	var terms []string
	cur := ""
	for i, r := range s {
		if (r == '+' || r == '-') && i > 0 {
			terms = append(terms, cur)
			cur = ""
		}
		cur += string(r)
	}
	if cur != "" {
		terms = append(terms, cur)
	}
	for i, term := range terms {
		sign := ""
		body := term
		if strings.HasPrefix(body, "+") || strings.HasPrefix(body, "-") {
			sign, body = body[:1], body[1:]
		}
		coef := ""
		if k := strings.Index(body, "*"); k >= 0 {
			coef, body = body[:k+1], body[k+1:]
		}
		if body != "" && !strings.ContainsAny(body[:1], "0123456789") {
			if d := strings.LastIndex(body, "."); d >= 0 {
				body = body[d+1:]
			}
			// parameters that carry the superblock's sizes into the parsers of package structures
			switch strings.ToLower(body) {
			case "sizeofsize", "lengthsize":
				body = "LengthSize"
			case "sizeofaddr", "offsetsize", "fileoffsetsize":
				body = "OffsetSize"
			case "heapoffsetsize":
				body = "HeapOffsetSize"
			case "heaplengthsize":
				body = "HeapLengthSize"
			}
		}
		terms[i] = sign + coef + body
	}
	// constants last, symbols sorted
	sort.SliceStable(terms, func(a, b int) bool {
		ka := strings.TrimLeft(terms[a], "+-0123456789*")
		kb := strings.TrimLeft(terms[b], "+-0123456789*")
		if (ka == "") != (kb == "") {
			return kb == ""
		}
		return ka < kb
	})
	return strings.Join(terms, "")
}

// fieldBridge: where a function copies a parsed structure into the writable one field by field (Y: parsed.X), the map X -> Y.
func (c *Ctx) fieldBridge(fnName string) map[string]string {
	out := map[string]string{}
	fn := c.FnOpt(fnName)
	if fn == nil {
		return out
	}
	instrs(fn, func(in ssa.Instruction) {
		st, ok := in.(*ssa.Store)
		if !ok {
			return
		}
		fa, ok := st.Addr.(*ssa.FieldAddr)
		if !ok {
			return
		}
		fld, _ := fieldOfAddr(fa)
		if fld == nil {
			return
		}
		if k, _ := fieldLoadKey(stripConv(st.Val)); k != "" {
			out[lastSeg(k)] = fld.Name()
		}
	})
	return out
}

var layoutRename map[string]string

func layoutAgreementRule(c *Ctx, r *Result, rule, what, writerName string, readerNames ...string) int {
	w := c.FnOpt(writerName)
	if w == nil {
		r.Shortfall(c, rule, rule+": "+writerName+" not found")
		return 0
	}
	wl := c.layoutOf(w, true)
	n := 0
	for _, rn := range readerNames {
		rf := c.FnOpt(rn)
		if rf == nil {
			r.Shortfall(c, rule, rule+": "+rn+" not found")
			continue
		}
		rl := c.layoutOf(rf, false)
		ra := c.layoutAll(rf)
		if layoutRename != nil {
			rl2 := map[string]layoutEntry{}
			for f, e := range rl {
				if g, ok := layoutRename[f]; ok {
					f = g
				}
				rl2[f] = e
			}
			rl = rl2
		}
		var names []string
		for f := range rl {
			if _, ok := wl[f]; ok {
				names = append(names, f)
			}
		}
		sort.Strings(names)
		for _, f := range names {
			n++
			we, re := wl[f], rl[f]
			ok := we.off == re.off && (we.width == re.width || we.width == "" || re.width == "")
			if !ok && layoutRename == nil && (multiVersionParser[rn] || fixed8Writer[writerName]) {
				// a parser for several versions: one of its stores of the field matches, with the 8-byte sizes the writers produce
				for _, cand := range ra[f] {
					if at8(we.off) == at8(cand.off) && at8(we.off) != "" && (at8(we.width) == at8(cand.width) || we.width == "" || cand.width == "") {
						ok, re = true, cand
					}
				}
			}
			explainedElsewhere := false
			if !ok && layoutRename == nil && len(ra[f]) > 0 && multiVersionParser[rn] {
				// every place the parser takes the field from belongs to another writer of the same structure
				explainedElsewhere = true
				for _, cand := range ra[f] {
					matched := false
					for _, p2 := range layoutPairs {
						if p2[2] != rn || p2[1] == writerName {
							continue
						}
						if w2 := c.FnOpt(p2[1]); w2 != nil {
							if e2, has := c.layoutOf(w2, true)[f]; has && at8(e2.off) == at8(cand.off) && at8(cand.off) != "" {
								matched = true
							}
						}
					}
					if !matched {
						explainedElsewhere = false
					}
				}
			}
			if !ok && explainedElsewhere {
				// the parser serves several versions and does not take this field from the writer's position in any of
				// them: it may simply not read the field for this version
				r.Undec(rule, fmt.Sprintf("%s~%s#%s", writerName, rn, f), re.pos, fmt.Sprintf("%s field %s: written at offset %s; the multi-version parser reads it elsewhere (%s) or not for this version", what, f, we.off, re.off))
				continue
			}
			r.Check(ok, rule, fmt.Sprintf("%s~%s#%s", writerName, rn, f), re.pos, fmt.Sprintf("%s field %s: written at offset %s with width %s (%s), read at offset %s with width %s", what, f, we.off, we.width, we.pos, re.off, re.width))
		}
	}
	// two fields of one structure are not taken from the same bytes (a copy-paste of the position)
	for _, rn := range readerNames {
		rf := c.FnOpt(rn)
		if rf == nil {
			continue
		}
		type src struct {
			field string
			e     layoutEntry
			blk   *ssa.BasicBlock
		}
		var srcs []src
		layoutCollectBlk = func(f string, e layoutEntry, b *ssa.BasicBlock) { srcs = append(srcs, src{f, e, b}) }
		c.layoutOf(rf, false)
		layoutCollectBlk = nil
		for i := range srcs {
			for j := i + 1; j < len(srcs); j++ {
				a, b := srcs[i], srcs[j]
				if a.field == b.field || a.e.off != b.e.off || a.e.width != b.e.width || a.e.off == "" {
					continue
				}
				if a.blk != b.blk && !a.blk.Dominates(b.blk) && !b.blk.Dominates(a.blk) {
					continue
				}
				n++
				r.Viol(rule, fmt.Sprintf("%s#%s-and-%s-from-the-same-bytes", rn, a.field, b.field), b.e.pos, fmt.Sprintf("%s: the fields %s and %s are both taken from offset %s (width %s)", what, a.field, b.field, a.e.off, a.e.width))
			}
		}
	}
	return n
}

var layoutCollectBlk func(string, layoutEntry, *ssa.BasicBlock)

// writers that produce 8-byte offsets and lengths only (the parser's sizes are compared at 8)
var fixed8Writer = map[string]bool{"structures.serializeChunkBTreeNode": true, "structures.BTreeNodeV1.WriteAt": true, "core.Superblock.writeV0": true, "core.Superblock.writeV2": true}

// parsers that serve several versions of a structure in one function
var multiVersionParser = map[string]bool{"core.ReadSuperblock": true}

func init() {
	registry["C14"].Meta.Rules["C14.14"] = "the name index header is parsed as it is serialised: for every named field that encodeHeader puts into the buffer and a header parser takes out of it, offset (a linear form over constants and the superblock's sizes) and width are the same on both sides (a two-byte record count read as one byte lists count mod 256 attributes; split and merge percent taken from each other's byte change on every read-modify-write)"
	registry["C14"].Rules = append(registry["C14"].Rules, func(c *Ctx, r *Result) {
		n := layoutAgreementRule(c, r, "C14.14", "B-tree v2 header", "structures.WritableBTreeV2.encodeHeader", "structures.readBTreeV2Header", "core.readBTreeV2HeaderRaw")
		if n < 8 {
			r.Shortfall(c, "C14.14", fmt.Sprintf("C14.14: only %d header fields compared", n))
		}
	})
}

func init() {
	registry["C15"].Meta.Rules["C15.13"] = "the heap header is parsed as it is serialised: for every field that writeHeaderAt puts into the buffer and parseFractalHeapHeader takes out of it (names matched through the field-by-field copy in LoadFromFile), offset and width are the same linear forms over the superblock's sizes (free space amount and free section address written in each other's place come back as a free space of 0 after a write/load cycle)"
	registry["C15"].Rules = append(registry["C15"].Rules, func(c *Ctx, r *Result) {
		layoutRename = c.fieldBridge("structures.WritableFractalHeap.LoadFromFile")
		n := layoutAgreementRule(c, r, "C15.13", "fractal heap header", "structures.WritableFractalHeap.writeHeaderAt", "structures.parseFractalHeapHeader")
		layoutRename = nil
		if n < 12 {
			r.Shortfall(c, "C15.13", fmt.Sprintf("C15.13: only %d header fields compared", n))
		}
	})
}

// positional layout: the (offset, width) pairs of the variable-width integers a function writes into / reads out of one buffer
// through the module's helpers (writeUintVar(dst[o:], v, w, ..) / readUint(src[o:..], w, ..)), sorted by offset.
func (c *Ctx) positionalLayout(fn *ssa.Function, writer bool) []string {
	var out []string
	if fn == nil || fn.Blocks == nil {
		return out
	}
	fb := c.FB(fn)
	instrs(fn, func(in ssa.Instruction) {
		call, ok := in.(*ssa.Call)
		if !ok {
			return
		}
		g := call.Call.StaticCallee()
		if g == nil || !inModule(fnPkgPath(g)) {
			return
		}
		args := call.Call.Args
		wi := 1
		if writer {
			wi = 2
		}
		if len(args) <= wi || !isIntType(args[wi].Type()) {
			return
		}
		sl, isSl := args[0].(*ssa.Slice)
		if !isSl {
			return
		}
		if _, isByteSlice := sl.Type().Underlying().(*types.Slice); !isByteSlice {
			return
		}
		if writer && !isIntType(args[1].Type()) {
			return
		}
		off := "+0"
		if sl.Low != nil {
			off = normSyms(fb.linString(fb.lin(sl.Low)))
		}
		out = append(out, off+" width "+normSyms(fb.linString(fb.lin(args[wi]))))
	})
	sort.Strings(out)
	return out
}

func init() {
	registry["C15"].Meta.Rules["C15.14"] = "a heap ID is taken apart as it is put together: the (offset, width) pairs of the variable-width integers encodeHeapID writes are the pairs GetObject, OverwriteObject and DeleteObject read (the length written with the width of the offset field loses its third byte: an object of exactly 65536 bytes gets an ID that says length 0)"
	registry["C15"].Rules = append(registry["C15"].Rules, func(c *Ctx, r *Result) {
		enc := c.FnOpt("structures.WritableFractalHeap.encodeHeapID")
		if enc == nil {
			r.Shortfall(c, "C15.14", "C15.14: encodeHeapID not found")
			return
		}
		we := c.positionalLayout(enc, true)
		n := 0
		for _, dn := range []string{"structures.WritableFractalHeap.GetObject", "structures.WritableFractalHeap.OverwriteObject", "structures.WritableFractalHeap.DeleteObject"} {
			d := c.FnOpt(dn)
			if d == nil {
				continue
			}
			rd := c.positionalLayout(d, false)
			if len(rd) == 0 {
				r.Undec("C15.14", "structures.WritableFractalHeap.encodeHeapID~"+dn+"#same-fields", c.Pos(d.Pos()), "no variable-width reads recognised")
				continue
			}
			n++
			r.Check(strings.Join(we, "; ") == strings.Join(rd, "; "), "C15.14", "structures.WritableFractalHeap.encodeHeapID~"+dn+"#same-fields", c.Pos(d.Pos()), "written: "+strings.Join(we, "; ")+" - read: "+strings.Join(rd, "; "))
		}
		if n < 2 || len(we) < 2 {
			r.Shortfall(c, "C15.14", fmt.Sprintf("C15.14: %d decoders compared, %d fields in the encoder", n, len(we)))
		}
	})

	registry["C15"].Meta.Rules["C15.15"] = "an overwrite replaces the whole object: in OverwriteObject the window the new bytes are copied into has exactly their length - both len(window) >= len(new) and len(new) >= len(window) follow from the size test (with the test weakened to 'not longer' a shorter value is accepted and Get returns it followed by the old tail)"
	registry["C15"].Rules = append(registry["C15"].Rules, func(c *Ctx, r *Result) {
		fn := c.FnOpt("structures.WritableFractalHeap.OverwriteObject")
		if fn == nil {
			r.Shortfall(c, "C15.15", "C15.15: OverwriteObject not found")
			return
		}
		fb := c.FB(fn)
		n := 0
		instrs(fn, func(in ssa.Instruction) {
			call, ok := in.(*ssa.Call)
			if !ok {
				return
			}
			if b, isB := call.Call.Value.(*ssa.Builtin); !isB || b.Name() != "copy" {
				return
			}
			if sl, isSl := call.Call.Args[0].(*ssa.Slice); !isSl || sl.High == nil {
				return
			}
			n++
			d, s := fb.lenLin(call.Call.Args[0]), fb.lenLin(call.Call.Args[1])
			ok2 := fb.ProveGE0At(d.add(s, -1), call) && fb.ProveGE0At(s.add(d, -1), call)
			r.Check(ok2, "C15.15", c.Name(fn)+fmt.Sprintf("#window-is-exactly-the-new-value-%d", n), c.InstrPos(call), "len(window) = "+fb.linString(d)+", len(new value) = "+fb.linString(s)+": equal on every path to the copy")
		})
		if n == 0 {
			r.Shortfall(c, "C15.15", "C15.15: no window copy in OverwriteObject")
		}
	})
}

func init() {
	registry["C14"].Meta.Rules["C14.15"] = "the node size the tree works with is the node size its header announces: a function that stores both WritableBTreeV2.nodeSize and the header's NodeSize stores the same value into both (or one from the other); a header that always says 4096 makes a 512-byte tree accept, after a write/load cycle, records its leaf has no room for"
	registry["C14"].Rules = append(registry["C14"].Rules, func(c *Ctx, r *Result) {
		n := 0
		for _, fn := range c.LibFuncs() {
			if shortPkg(fnPkgPath(fn)) != "structures" {
				continue
			}
			var a, b *FieldStore
			for _, fs := range c.DirectFieldStores(fn) {
				fs := fs
				if fs.Fn != fn || fs.Val == nil {
					continue
				}
				switch fs.Key {
				case "structures.WritableBTreeV2.nodeSize":
					a = &fs
				case "structures.BTreeV2Header.NodeSize":
					b = &fs
				}
			}
			if a == nil || b == nil {
				continue
			}
			n++
			va, vb := stripConv(a.Val), stripConv(b.Val)
			same := va == vb
			if k, _ := fieldLoadKey(va); k == "structures.BTreeV2Header.NodeSize" {
				same = true
			}
			if k, _ := fieldLoadKey(vb); k == "structures.WritableBTreeV2.nodeSize" {
				same = true
			}
			ka, okA := constInt(va)
			kb, okB := constInt(vb)
			if okA && okB && ka == kb {
				same = true
			}
			r.Check(same, "C14.15", c.Name(fn)+"#header-announces-the-working-node-size", c.InstrPos(b.In), "nodeSize and header.NodeSize take the same value")
		}
		if n == 0 {
			r.Shortfall(c, "C14.15", "C14.15: no function stores both node size fields")
		}
	})
}

func init() {
	txt := "the messages of a version 1 object header start where its reader looks for them: the cursor with which writeToV1 enters its message loop (a constant: the 16-byte prefix) equals the constant parseV1Header adds to the header address for the first message (a dropped 4-byte padding puts the messages at byte 12: other readers find message type 0 and garbage addresses in the root group's header)"
	rule := func(id string) func(c *Ctx, r *Result) {
		return func(c *Ctx, r *Result) {
			w, rd := c.FnOpt("core.ObjectHeaderWriter.writeToV1"), c.FnOpt("core.parseV1Header")
			if w == nil || rd == nil {
				r.Shortfall(c, id, id+": writeToV1 or parseV1Header not found")
				return
			}
			// writer: the cursor phi of the loop over the messages
			fb := c.FB(w)
			wInit, wPos, okW := int64(0), c.Pos(w.Pos()), false
			for _, h := range w.Blocks {
				isHeader := false
				for _, p := range h.Preds {
					if h.Dominates(p) {
						isHeader = true
					}
				}
				if !isHeader {
					continue
				}
				loop := naturalLoop(h)
				for _, in := range h.Instrs {
					phi, isPhi := in.(*ssa.Phi)
					if !isPhi || !isIntType(phi.Type()) {
						continue
					}
					usedAsLow := false
					for b := range loop {
						for _, x := range b.Instrs {
							if sl, isSl := x.(*ssa.Slice); isSl && sl.Low != nil && dependsOnValue(sl.Low, phi, 0) {
								usedAsLow = true
							}
						}
					}
					if !usedAsLow {
						continue
					}
					for i, p := range h.Preds {
						if !h.Dominates(p) {
							if l := fb.lin(phi.Edges[i]); l.isConst() {
								wInit, okW = l.C, true
								if ii, isI := phi.Edges[i].(ssa.Instruction); isI {
									wPos = c.InstrPos(ii)
								}
							}
						}
					}
				}
			}
			// reader: the constant added to the header address for the start of the messages
			rInit, okR := int64(0), false
			for _, site := range callsIn(rd) {
				g := site.Common().StaticCallee()
				if g == nil || g.Name() != "parseV1MessagesInBlock" {
					continue
				}
				for i, p := range g.Params {
					if p.Name() == "start" && i < len(site.Common().Args) {
						if bo, isBO := stripConv(site.Common().Args[i]).(*ssa.BinOp); isBO && bo.Op == token.ADD {
							if k, isK := constInt(bo.Y); isK {
								rInit, okR = k, true
							}
						}
					}
				}
			}
			if !okW || !okR {
				r.Undec(id, "core.ObjectHeaderWriter.writeToV1~core.parseV1Header#messages-start", wPos, "cursor of the message loop or the reader's start constant not recognised")
				return
			}
			r.Check(wInit == rInit, id, "core.ObjectHeaderWriter.writeToV1~core.parseV1Header#messages-start", wPos, fmt.Sprintf("the writer's first message is at byte %d of the header, the reader starts at byte %d", wInit, rInit))
		}
	}
	registry["C05"].Meta.Rules["C05.14"] = txt
	registry["C05"].Rules = append(registry["C05"].Rules, rule("C05.14"))
	registry["C11"].Meta.Rules["C11.14"] = txt + " (shared with C05.14)"
	registry["C11"].Rules = append(registry["C11"].Rules, rule("C11.14"))
}

// ---- the data of a block ends before its checksum (C15.16) ----
//
// A block is serialized into a buffer of fixed size whose last bytes take the checksum of everything before them:
// sum := crc32(buf[:k]); PutUint32(buf[k:], sum). A copy of variable-length content into the open-ended rest of the buffer
// (copy(buf[o:], data)) must end at or before k - proven from a dominating test - or the checksum is written over the tail of the
// data and, beyond the buffer, copy drops it silently.
func checksumAfterDataRule(c *Ctx, r *Result, rule string, scope func(string) bool, floor int) {
	n := 0
	for _, fn := range c.LibFuncs() {
		if fn.Blocks == nil || (scope != nil && !scope(c.Name(fn))) {
			continue
		}
		// the checksum store: PutUint32(buf[k:], crc(buf[:k]))
		var k ssa.Value
		var buf ssa.Value
		var at ssa.Instruction
		for _, site := range callsIn(fn) {
			com := site.Common()
			name := ""
			if com.IsInvoke() {
				name = com.Method.Name()
			} else if f := com.StaticCallee(); f != nil {
				name = f.Name()
			}
			if name != "PutUint32" || len(com.Args) < 2 {
				continue
			}
			sum, isCall := stripConv(com.Args[len(com.Args)-1]).(*ssa.Call)
			if !isCall || sum.Call.StaticCallee() == nil || !strings.Contains(sum.Call.StaticCallee().String(), "crc32") {
				continue
			}
			dst, isSl := com.Args[len(com.Args)-2].(*ssa.Slice)
			if !isSl || dst.Low == nil {
				continue
			}
			k, buf, at = dst.Low, stripSlices(dst), site.(ssa.Instruction)
		}
		if k == nil {
			continue
		}
		fb := c.FB(fn)
		j := 0
		for _, site := range callsIn(fn) {
			call, isCall := site.(*ssa.Call)
			if !isCall {
				continue
			}
			if b, isB := call.Call.Value.(*ssa.Builtin); !isB || b.Name() != "copy" {
				continue
			}
			dst, isSl := call.Call.Args[0].(*ssa.Slice)
			if !isSl || stripSlices(dst) != buf || !canReach(call, at) {
				continue
			}
			src := fb.lenLin(call.Call.Args[1])
			if src.isConst() {
				continue // a signature: fixed size, placed by the layout
			}
			n++
			j++
			// start of the destination: the low bounds along the chain of slicings
			lo := linConst(0)
			for s := ssa.Value(dst); ; {
				sl, isS := s.(*ssa.Slice)
				if !isS {
					break
				}
				if sl.Low != nil {
					lo = lo.add(fb.lin(sl.Low), 1)
				}
				s = sl.X
			}
			ok := fb.ProveGE0At(fb.lin(k).add(lo, -1).add(src, -1), call)
			r.Check(ok, rule, fmt.Sprintf("%s#data-ends-before-the-checksum-%d", c.Name(fn), j), c.InstrPos(call), "copy of "+fb.linString(src)+" bytes at "+fb.linString(lo)+": its end is proven <= "+fb.linString(fb.lin(k))+", where the checksum goes (otherwise the last bytes of the data are overwritten by the checksum or dropped, and the block reads back with a valid checksum)")
		}
	}
	if n < floor {
		r.Shortfall(c, rule, fmt.Sprintf("%s: only %d variable-length copies in checksummed blocks found (expected >= %d)", rule, n, floor))
	}
}

func init() {
	registry["C15"].Meta.Rules["C15.16"] = "the data of a block ends before its checksum: where a block is serialized into a buffer whose tail takes the checksum of what precedes it, every copy of variable-length content into the open-ended rest of the buffer is proven, from a dominating test, to end at or before the checksum's offset (a direct block filled to the last byte of its nominal size was serialized with its last 19 bytes dropped or overwritten, and read back with a valid checksum)"
	registry["C15"].Rules = append(registry["C15"].Rules, func(c *Ctx, r *Result) {
		checksumAfterDataRule(c, r, "C15.16", func(n string) bool { return strings.HasPrefix(n, "structures.") }, 1)
	})
}

// further writer/parser pairs (C11.15): the same comparison for the structures whose serializer and parser both name their fields
var layoutPairs = [][3]string{
	{"attribute info message", "core.EncodeAttributeInfoMessage", "core.ParseAttributeInfoMessage"},
	{"link info message", "core.EncodeLinkInfoMessage", "core.ParseLinkInfoMessage"},
	{"link message", "core.EncodeLinkMessage", "core.ParseLinkMessage"},
	{"local heap header", "structures.LocalHeap.WriteTo", "structures.LoadLocalHeap"},
	{"fractal heap direct block", "structures.WritableFractalHeap.writeDirectBlockAt", "structures.WritableFractalHeap.readDirectBlockFromFile"},
	{"fractal heap indirect block", "structures.WritableIndirectBlock.writeAt", "structures.ParseIndirectBlock"},
	{"superblock v2/v3", "core.Superblock.writeV2", "core.ReadSuperblock"},
	{"superblock v0", "core.Superblock.writeV0", "core.ReadSuperblock"},
	{"chunk B-tree node", "structures.serializeChunkBTreeNode", "core.ParseBTreeV1Node"},
	{"group B-tree node", "structures.BTreeNodeV1.WriteAt", "structures.ReadGroupBTreeEntries"},
}

func init() {
	registry["C11"].Meta.Rules["C11.15"] = "named fields keep their place and width between serializer and parser: for the attribute info, link info and link messages, the local heap header, the fractal heap's direct and indirect blocks and the superblocks, every field name that the serializer puts into the buffer and the parser stores from it has the same offset (a linear form over constants and the superblock's sizes) and the same width on both sides (C14.14 on further pairs; pairs or fields that are not written in the recognised forms are not compared)"
	registry["C11"].Rules = append(registry["C11"].Rules, func(c *Ctx, r *Result) {
		total := 0
		for _, p := range layoutPairs {
			if c.FnOpt(p[1]) == nil || c.FnOpt(p[2]) == nil {
				r.Notef("C11.15: pair %s ~ %s not present", p[1], p[2])
				continue
			}
			total += layoutAgreementRule(c, r, "C11.15", p[0], p[1], p[2])
		}
		if total < 6 {
			r.Shortfall(c, "C11.15", fmt.Sprintf("C11.15: only %d fields compared over all pairs", total))
		}
	})
}

// ---- the size recorded for a structure is the size allocated for it (C04.13 / C12.16) ----
//
// addr := Allocate(n); obj.address = addr; obj.size = m - the object is later serialized into m bytes at addr. m and n are the
// same value. With less allocated than recorded, the structure is written over whatever is allocated next.
func allocatedSizeRecordedRule(c *Ctx, r *Result, rule string, floor int) {
	n := 0
	for _, fn := range c.LibFuncs() {
		if fn.Blocks == nil {
			continue
		}
		pk := shortPkg(fnPkgPath(fn))
		if pk != "hdf5" && pk != "structures" && pk != "writer" {
			continue
		}
		var fb *FB
		for _, site := range callsIn(fn) {
			com := site.Common()
			name := ""
			if com.IsInvoke() {
				name = com.Method.Name()
			} else if f := com.StaticCallee(); f != nil {
				name = f.Name()
			}
			if name != "Allocate" || len(com.Args) == 0 {
				continue
			}
			call, isCall := site.(*ssa.Call)
			if !isCall {
				continue
			}
			sizeArg := com.Args[len(com.Args)-1]
			// where does the address go?
			var addrVals []ssa.Value
			for _, ref := range *call.Referrers() {
				if ex, isEx := ref.(*ssa.Extract); isEx && ex.Index == 0 {
					addrVals = append(addrVals, ex)
				}
			}
			if len(addrVals) == 0 {
				addrVals = append(addrVals, call)
			}
			for _, av := range addrVals {
				for _, ref := range *av.Referrers() {
					st, isSt := ref.(*ssa.Store)
					if !isSt || st.Val != av {
						continue
					}
					fa, isFA := st.Addr.(*ssa.FieldAddr)
					if !isFA {
						continue
					}
					// sibling store of a size into the same object
					for _, r2 := range *fa.X.Referrers() {
						fa2, isFA2 := r2.(*ssa.FieldAddr)
						if !isFA2 || fa2 == fa {
							continue
						}
						fld, _ := fieldOfAddr(fa2)
						if fld == nil || !strings.EqualFold(fld.Name(), "size") {
							continue
						}
						for _, r3 := range *fa2.Referrers() {
							st2, isSt2 := r3.(*ssa.Store)
							if !isSt2 || st2.Addr != ssa.Value(fa2) {
								continue
							}
							if fb == nil {
								fb = c.FB(fn)
							}
							n++
							d := fb.lin(st2.Val).add(fb.lin(sizeArg), -1)
							same := st2.Val == sizeArg || (d.isConst() && d.C == 0)
							r.Check(same, rule, c.Name(fn)+"#recorded-size-is-the-allocated-size", c.InstrPos(call), "Allocate("+fb.linString(fb.lin(sizeArg))+") and the object's size field takes "+fb.linString(fb.lin(st2.Val)))
						}
					}
				}
			}
		}
	}
	if n < floor {
		r.Shortfall(c, rule, fmt.Sprintf("%s: only %d allocations whose address and size are recorded in one object (expected >= %d)", rule, n, floor))
	}
}

// at8 evaluates a normalised linear form with OffsetSize = LengthSize = 8 ("" when other symbols remain).
func at8(s string) string {
	if s == "" {
		return ""
	}
	total := int64(0)
	cur := ""
	var terms []string
	for i, r := range s {
		if (r == '+' || r == '-') && i > 0 {
			terms = append(terms, cur)
			cur = ""
		}
		cur += string(r)
	}
	terms = append(terms, cur)
	for _, term := range terms {
		sign := int64(1)
		body := term
		if strings.HasPrefix(body, "-") {
			sign, body = -1, body[1:]
		} else {
			body = strings.TrimPrefix(body, "+")
		}
		coef := int64(1)
		if k := strings.Index(body, "*"); k >= 0 {
			fmt.Sscan(body[:k], &coef)
			body = body[k+1:]
		}
		switch body {
		case "OffsetSize", "LengthSize":
			total += sign * coef * 8
		default:
			var v int64
			if _, err := fmt.Sscan(body, &v); err != nil {
				return ""
			}
			total += sign * coef * v
		}
	}
	return fmt.Sprint(total)
}
