#!/bin/bash
# usage: confirm_seed.sh <Cxx> <A|B> [patchfile]
# Confirms a seeded change in a scratch worktree of /repo HEAD: demo passes without the change, fails with it,
# the existing suite passes with it. Writes /verif/seeded/<id>/{patch.diff,demo_test.go,meta.json}. Removes the worktree.
set -u
P="$1"; V="$2"; ID="$P-$V"
SRC="/tmp/wt-out/$P/$V"
[ -d "$SRC" ] || SRC="/verif/seeded/$ID"
PATCH="${3:-$SRC/patch.diff}"
WT="/tmp/cs/$ID"
LOG="/tmp/cs/$ID.log"
mkdir -p /tmp/cs
rm -rf "$WT"; git -C /repo worktree prune
git -C /repo worktree add -q --detach "$WT" HEAD || exit 2
cd "$WT"
DEMO=$(ls "$SRC"/demo_test.go 2>/dev/null || ls "$SRC"/*_test.go | head -1)
PKG=$(grep -m1 '^package ' "$DEMO" | awk '{print $2}')
case "$PKG" in
  hdf5|hdf5_test) DIR=. ;;
  structures|structures_test) DIR=internal/structures ;;
  core|core_test) DIR=internal/core ;;
  rebalancing|rebalancing_test) DIR=internal/rebalancing ;;
  writer|writer_test) DIR=internal/writer ;;
  utils|utils_test) DIR=internal/utils ;;
  *) DIR=. ;;
esac
RACE=""
grep -qi -- "-race" "$SRC/notes.md" 2>/dev/null && grep -qiE "must be run with .?-race|run with -race|under -race" "$SRC/notes.md" && RACE="-race"
export GOFLAGS=-mod=mod
cp "$DEMO" "$DIR/zz_seed_demo_test.go"
go test -vet=off -count=1 $RACE -timeout 600s "./$DIR" -run 'C[0-9][0-9]|Demo|Probe|Seed' > "$LOG.clean" 2>&1; RC_CLEAN=$?
rm -f "$DIR/zz_seed_demo_test.go"
APPLY=plain
if ! git apply "$PATCH" 2>/dev/null; then
  if git apply --3way "$PATCH" >/dev/null 2>&1 && ! git diff | grep -q '^[+-]*<<<<<<<'; then APPLY=3way; else echo "$ID: PATCH-DOES-NOT-APPLY"; git -C /repo worktree remove --force "$WT"; exit 3; fi
fi
git diff HEAD > "/tmp/cs/$ID.patch"
go build ./... > "$LOG.build" 2>&1 || { echo "$ID: BUILD-FAILS"; git -C /repo worktree remove --force "$WT"; exit 4; }
go test -vet=off -count=1 -timeout 900s ./... > "$LOG.suite" 2>&1; RC_SUITE=$?
if [ $RC_SUITE -ne 0 ] && grep -q "TestMetricsCollector_Performance" "$LOG.suite" && [ "$(grep -c '^--- FAIL' "$LOG.suite")" = "1" ]; then
  for try in 1 2 3 4; do
    if go test -vet=off -count=1 ./internal/rebalancing/ > "$LOG.suite2" 2>&1; then RC_SUITE=0; break; fi
    sleep 5
  done
fi
cp "$DEMO" "$DIR/zz_seed_demo_test.go"
go test -vet=off -count=1 $RACE -timeout 600s "./$DIR" -run 'C[0-9][0-9]|Demo|Probe|Seed' > "$LOG.mut" 2>&1; RC_MUT=$?
echo "$ID: apply=$APPLY demo_clean_rc=$RC_CLEAN suite_with_change_rc=$RC_SUITE demo_with_change_rc=$RC_MUT race='$RACE' dir=$DIR"
if [ $RC_CLEAN -eq 0 ] && [ $RC_SUITE -eq 0 ] && [ $RC_MUT -ne 0 ]; then
  OUT="/verif/seeded/$ID"; mkdir -p "$OUT"
  cp "/tmp/cs/$ID.patch" "$OUT/patch.diff"; cp "$DEMO" "$OUT/demo_test.go"; cp "$SRC/notes.md" "$OUT/notes.md" 2>/dev/null
  python3 - "$ID" "$P" "$DIR" "$RACE" "$APPLY" <<'PY'
import json,sys,re,subprocess
id_,prop,d,race,apply=sys.argv[1:6]
notes=open(f"/verif/seeded/{id_}/notes.md").read() if True else ""
head=subprocess.run(["git","-C","/repo","rev-parse","--short","HEAD"],capture_output=True,text=True).stdout.strip()
meta={"id":id_,"property":prop,"base_commit":head,"demo_package_dir":d,"demo_needs_race":bool(race),
 "what_i_ran":[f"git worktree add /tmp/cs/{id_} HEAD",
   f"demo on clean tree: go test -vet=off -count=1 {race} ./{d} -run ... -> PASS",
   f"git apply ({apply}) patch.diff; go build ./... -> ok",
   "go test -vet=off -count=1 ./... with the change (demo removed) -> all packages ok",
   f"demo with the change: go test {race} ./{d} -> FAIL"],
 "needs_to_manifest":"see notes.md (written by the sub-agent that produced the change; confirmed here)"}
json.dump(meta,open(f"/verif/seeded/{id_}/meta.json","w"),indent=1)
PY
  echo "$ID: CONFIRMED"
else
  echo "$ID: NOT-CONFIRMED (see $LOG.*)"
fi
cd /; git -C /repo worktree remove --force "$WT"
