#!/usr/bin/env python3
"""Markdown summary of the current evidence files (one row per property)."""
import json, glob, os
claims = json.load(open('/verif/claims.json'))
props = [json.loads(l) for l in open('/verif/properties.jsonl')]
print('| id | claimed | rules | obligations (hold / exception / not decided / known finding / violation) | technique |')
print('|---|---|---|---|---|')
for p in props:
    pid = p['id']
    c = claims.get(pid, {})
    if not c.get('claimed'):
        print(f'| {pid} | **no** | - | - | not applicable: see 9.4 |')
        continue
    ev = json.load(open(f'/verif/evidence/{pid}.json'))
    cov = ev['coverage']
    pr = cov['per_rule']
    h = sum(v.get('holds', 0) for v in pr.values()); e = sum(v.get('exception', 0) for v in pr.values())
    u = sum(v.get('undecided', 0) for v in pr.values()); v_ = sum(v.get('violated', 0) for v in pr.values())
    k = len(cov.get('known_findings_matched') or [])
    print(f"| {pid} | yes (other) | {len(pr)} | {h} / {e} / {u} / {k} / {v_-k} | {c['technique']} |")
