#!/usr/bin/env python3
"""Regenerates MANIFEST.json from claims.json (one record per property)."""
import json, sys
claims = json.load(open('/verif/claims.json'))
props = [json.loads(l) for l in open('/verif/properties.jsonl')]
checks, na = [], []
for p in props:
    pid = p['id']
    c = claims.get(pid)
    if c and c.get('claimed'):
        checks.append({
            "property_id": pid,
            "quick_cmd": f"./run.sh {pid} quick",
            "thorough_cmd": f"./run.sh {pid} thorough",
            "evidence_file": f"/verif/evidence/{pid}.json",
            "replay_cmd_template": "cat {path}",
            "engine": "h5sa",
            "level_claimed": {"category": "other", "text": c['level_text'], "design_ref": c.get('design_ref', f"DESIGN.md section 3, {pid}")},
            "level_note": c['level_note'],
            "technique": c['technique'],
        })
    else:
        na.append({"property_id": pid, "reason": (c or {}).get('reason', 'check under construction; not claimed yet')})
m = {
    "version": 1,
    "setup_cmd": "./setup.sh",
    "hooks": {
        "guard": "verif",
        "enable": "no hooks: the analysis reads the source; thorough tier additionally loads the tree with -tags verif to cover tagged files",
        "baseline_off_cmd": "cd /repo && go test -mod=mod -vet=off -count=1 ./...",
        "source_commits": [],
        "add_only": True,
    },
    "engines": [{
        "name": "h5sa", "path": "/verif/sa",
        "serves_properties": [c["property_id"] for c in checks],
        "kind_free_text": "repository-specific static analyzer: go/packages (LoadAllSyntax) + go/types + go/ssa + VTA call graph; rules are dominance/path, error-flow, effect, bounds, lock-set and table analyses over the resolved program",
    }],
    "checks": checks,
    "notes": "Static analysis only. Each check reloads /repo's working tree and decides structural necessary conditions of the property (listed per rule in the evidence); exit 0/1/2 = ok / VIOLATION / checker error. Known findings: /verif/known_findings.txt.",
    "not_applicable": na,
}
json.dump(m, open('/verif/MANIFEST.json', 'w'), indent=1)
print(f"{len(checks)} checks, {len(na)} not applicable")
