#!/bin/bash
# usage: evalpatch.sh <patch> <Cxx> [Cyy ...]   - applies the patch to a scratch copy of /repo (3-way via a temp git repo), runs the checks, prints findings
set -u
PATCHF="$(readlink -f "$1")"; shift
HERE="$(cd "$(dirname "$0")" && pwd)"
export PATH=/opt/veriftools/go1.26.8/bin:$PATH GOTOOLCHAIN=local GOFLAGS=-mod=mod GOPROXY=off GOSUMDB=off CGO_ENABLED=0
unset GOWORK
D="$(mktemp -d /dev/shm/h5sa-ev.XXXXXX)"
trap 'rm -rf "$D"' EXIT
rsync -a --exclude .git --exclude testdata --exclude '*.h5' /repo/ "$D/"
if ! (cd "$D" && git apply --whitespace=nowarn "$PATCHF" 2>/dev/null); then
  # try a 3-way merge through a temporary worktree of /repo
  W="$(mktemp -d /tmp/ev-wt.XXXXXX)"; rmdir "$W"
  git -C /repo worktree add -q --detach "$W" HEAD
  if (cd "$W" && git apply --3way "$PATCHF" >/dev/null 2>&1 && ! git diff | grep -q '^+<<<<<<<'); then
    (cd "$W" && git diff HEAD) > "$D/.ported.diff"
    git -C /repo worktree remove --force "$W"
    (cd "$D" && git apply --whitespace=nowarn .ported.diff) || { echo "PATCH-DOES-NOT-APPLY"; exit 3; }
  else
    git -C /repo worktree remove --force "$W"; echo "PATCH-DOES-NOT-APPLY"; exit 3
  fi
fi
for P in "$@"; do
  out="$("${H5SA_BIN:-$HERE/bin/h5sa}" -prop "$P" -repo "$D" -verif "$HERE" -no-evidence 2>&1 | grep -v '^WARNING')"; rc=$?
  echo "--- $P: $(echo "$out" | grep -c '^FINDING') finding(s) $(echo "$out" | grep -c 'CHECKER-ERROR') error(s)"
  echo "$out" | grep "^FINDING\|CHECKER-ERROR" | cut -c1-${EVCUT:-260} | head -${EVHEAD:-6}
done
