#!/bin/bash
# maintenance helper: every registered property against /repo, findings only (no evidence written)
cd "$(dirname "$0")"
export PATH=/opt/veriftools/go1.26.8/bin:$PATH GOTOOLCHAIN=local GOFLAGS=-mod=mod GOPROXY=off GOSUMDB=off CGO_ENABLED=0
unset GOWORK
for p in $(./bin/h5sa -list | cut -d' ' -f1); do
  out=$(./bin/h5sa -prop $p -no-evidence 2>&1 | grep -v '^WARNING'); rc=$?
  echo "$p rc=$(./bin/h5sa -prop $p -no-evidence >/dev/null 2>&1; echo $?) $(echo "$out" | grep -c FINDING) findings"
  echo "$out" | grep "FINDING\|ERROR" | cut -c1-220
done
