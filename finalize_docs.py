#!/usr/bin/env python3
"""Inserts the generated catch summary and the as-built claims table into DESIGN.md (between markers)."""
import re, subprocess
d = open('/verif/DESIGN.md').read()
rows = [l for l in open('/verif/CATCH_TABLE.md').read().splitlines()[2:] if l.strip()]
tot = [r for r in rows if 'control (unchanged copy)' not in r]
rep = [r for r in tot if '| reported' in r]
notrep = [r for r in tot if '| NOT reported' in r]
ctl_bad = [r for r in rows if 'control (unchanged copy)' in r and 'clean' not in r.split('|')[3]]
lines = []
lines.append(f"* {len(tot)} changes (seeded: {sum('seeded/' in r for r in tot)}, reverted repairs: {sum('regress/' in r for r in tot)}); "
             f"{len(rep)} reported by the check of their own property; control copies clean for {sum('control (unchanged copy)' in r for r in rows) - len(ctl_bad)} of {sum('control (unchanged copy)' in r for r in rows)} properties.")
for r in notrep:
    cells = [c.strip() for c in r.strip('|').split('|')]
    lines.append(f"* not reported by its own property's check: `{cells[1]}` ({cells[3]})")
lines.append("")
lines.append("Per property (changes reported / changes):")
per = {}
for r in tot:
    cells = [c.strip() for c in r.strip('|').split('|')]
    p = cells[0]
    per.setdefault(p, [0, 0])
    per[p][1] += 1
    if cells[2].startswith('reported'):
        per[p][0] += 1
lines.append(", ".join(f"{p} {a}/{b}" for p, (a, b) in sorted(per.items())) + ".")
summary = "\n".join(lines)
start, end = "<!-- CATCH_SUMMARY_BEGIN -->", "<!-- CATCH_SUMMARY_END -->"
if '@@CATCH_SUMMARY@@' in d:
    d = d.replace('@@CATCH_SUMMARY@@', start + "\n" + summary + "\n" + end)
else:
    d = re.sub(re.escape(start) + r".*?" + re.escape(end), lambda m: start + "\n" + summary + "\n" + end, d, flags=re.S)
table = subprocess.run(['python3', '/verif/gen_summary.py'], capture_output=True, text=True).stdout
s2, e2 = "<!-- CLAIMS_TABLE_BEGIN -->", "<!-- CLAIMS_TABLE_END -->"
block = s2 + "\n" + table + e2
if s2 in d:
    d = re.sub(re.escape(s2) + r".*?" + re.escape(e2), lambda m: block, d, flags=re.S)
else:
    d = d.rstrip('\n') + "\n\n### 9.7 Claims as built (from the current evidence files)\n\n" + block + "\n"
open('/verif/DESIGN.md', 'w').write(d)
print(summary)
