#!/bin/bash
# usage: selftest.sh <Cxx> <out.json>
# Mutant self-test of one property's checker (thorough tier): every property-breaking change kept under
# /verif/seeded/<Cxx>-*/patch.diff and every reverted repair under /verif/regress/<Cxx>-*.diff is applied to a scratch
# copy of /repo's current working tree (outside /repo and /verif, removed immediately afterwards) and analysed with
# `h5sa -no-evidence -repo <copy>`. An unpatched control copy must produce no finding. Nothing is executed from the library.
# The result is embedded in the evidence (coverage.mutant_selftest); it never changes the exit code of the check.
set -u
PROP="${1:?property}"; OUT="${2:?output json}"
HERE="$(cd "$(dirname "$0")" && pwd)"
REPO="${H5SA_REPO:-/repo}"
export PATH=/opt/veriftools/go1.26.8/bin:$PATH
export GOTOOLCHAIN=local GOFLAGS=-mod=mod GOPROXY=off GOSUMDB=off GONOSUMDB='*' CGO_ENABLED=0
unset GOWORK
BASE="$(mktemp -d /dev/shm/h5sa-st.XXXXXX 2>/dev/null || mktemp -d)"
trap 'rm -rf "$BASE"' EXIT
rows=()
run_one() { # id patchfile(or "-")
  local id="$1" pf="$2" dir="$BASE/$1"
  mkdir -p "$dir"
  rsync -a --exclude .git --exclude testdata --exclude '*.h5' "$REPO/" "$dir/"
  local applies=true
  if [ "$pf" != "-" ]; then
    (cd "$dir" && git apply --whitespace=nowarn "$pf" >/dev/null 2>&1) || applies=false
  fi
  local rc=-1 rules=""
  if $applies; then
    local out; out="$("${H5SA_BIN:-$HERE/bin/h5sa}" -prop "$PROP" -tier quick -repo "$dir" -verif "$HERE" -no-evidence 2>&1)"; rc=$?
    rules="$(printf '%s\n' "$out" | sed -n 's/^FINDING property=[A-Z0-9]* rule=\([A-Z0-9.]*\) .*/\1/p' | sort -u | tr '\n' ' ')"
  fi
  rm -rf "$dir"
  rows+=("{\"id\":\"$id\",\"applies\":$applies,\"exit\":$rc,\"rules\":\"${rules% }\"}")
}
run_one control -
for d in "$HERE"/seeded/"$PROP"-*/; do
  [ -f "$d/patch.diff" ] && run_one "seeded/$(basename "$d")" "$d/patch.diff"
done
for f in "$HERE"/regress/"$PROP"-*.diff; do
  [ -f "$f" ] && run_one "regress/$(basename "$f" .diff)" "$f"
done
n=${#rows[@]}
det=0; stale=0; ctl="false"
for r in "${rows[@]}"; do
  case "$r" in
    *'"id":"control"'*'"exit":0'*) ctl="true" ;;
    *'"id":"control"'*) ;;
    *'"applies":false'*) stale=$((stale+1)) ;;
    *'"exit":1'*) det=$((det+1)) ;;
  esac
done
{
  printf '{"ran":%d,"control_clean":%s,"changes":%d,"detected":%d,"stale_patches":%d,"details":[' "$n" "$ctl" "$((n-1))" "$det" "$stale"
  first=1
  for r in "${rows[@]}"; do [ $first -eq 1 ] || printf ','; first=0; printf '%s' "$r"; done
  printf ']}\n'
} > "$OUT"
echo "selftest $PROP: $det of $((n-1)) changes detected, $stale stale, control clean: $ctl" >&2
