#!/bin/bash
# placeholder: the mutant self-test runner is filled in once seeded changes exist
echo '{"ran":0}' > "$2"
